// Replay of a counterexample history on the REAL build: real libcappuccino headers, real libstdc++,
// ASan/UBSan/_GLIBCXX_DEBUG, steady_clock::now() replaced at link time by a virtual clock, rr's random engine
// re-seeded so that its next draw is the one the solver chose.  The property clauses are the same
// relations (harness/clauses.hpp) evaluated over alpha_real(), the abstraction function written against the
// public std API.
//   build: g++ -std=c++17 -DVF_REAL -DVF_RUNTIME_PROP -Dprivate=public -DCONT_API='"api_lru.hpp"' -DHCAP=2 -DTS=no
//   run:   replay <prop> <history-file>
// history file: first line "cfg <ttl> <tick>", then one line per call: "<op> <k> <v> <allow> <peek> <ttl> <now> <draw>"
#include <chrono>
#include <cstdio>
#include <cstdlib>
#include <cstdint>
#include <random>
#include <cstring>
static int64_t g_now_ticks;
namespace std { namespace chrono { inline namespace _V2 {
steady_clock::time_point steady_clock::now() noexcept { return time_point(nanoseconds(g_now_ticks * 1000000LL)); }
}}}
int      g_prop;
int      g_fail;
int      g_step;
extern "C" {
void     __vf_assert(bool c, int id) { if (!c) { printf("CLAUSE-FAIL id=%d step=%d\n", id, g_step); ++g_fail; } }
void     __vf_assume(bool) {}
void     __vf_set_now(int64_t t) { g_now_ticks = t; }
uint64_t nondet_u64(void) { return 0; }
uint8_t  nondet_u8(void) { return 0; }
int64_t  nondet_i64(void) { return 0; }
bool     nondet_bool(void) { return false; }
}
#include CONT_API
#include "clauses.hpp"
#include "exec.hpp"
int64_t last_now, cfg_ttl = 100, cfg_tick = 5;

// ---- lifting of a K2 counterexample: reach the abstract pre-state alpha(pre) through the public API only ----
static void at(int64_t t) { g_now_ticks = t; }
static bool build_state(C& c, const Abs& t, int64_t last_now)
{
    (void)last_now;
#if T_POLICY == P_LRU && T_TTL == 0
    for (size_t p = t.n; p-- > 0;) c.insert(t.k[p], t.v[p]);
#elif T_POLICY == P_LRU && T_TTL == 1 /* tlru: per-entry ttl, all written at time 0 */
    at(0);
    for (size_t p = t.n; p-- > 0;) c.insert(std::chrono::milliseconds{t.d[p]}, t.k[p], t.v[p]);
#elif T_POLICY == P_LRU && T_TTL == 2 /* utlru: the ttl in force is reconfigured before each write */
    at(0);
    for (size_t p = t.n; p-- > 0;) { c.update_ttl(std::chrono::milliseconds{t.d[p]}); c.insert(t.k[p], t.v[p]); }
    c.update_ttl(std::chrono::milliseconds{t.ttl});
#elif T_POLICY == P_MRU || T_POLICY == P_FIFO || T_POLICY == P_RR
    for (size_t p = 0; p < t.n; ++p) c.insert(t.k[p], t.v[p]);
#elif T_POLICY == P_LFU
    for (size_t p = 0; p < t.n; ++p) c.insert(t.k[p], t.v[p]);
    for (size_t p = 0; p < t.n; ++p)
        for (uint64_t u = 1; u < t.cnt[p]; ++u) c.find(t.k[p]);
#elif T_POLICY == P_LFUDA
    // entries are written at the time of their final age, oldest first; counts are raised at that same instant
    {
        size_t ord[AMAX]; for (size_t p = 0; p < t.n; ++p) ord[p] = p;
        for (size_t i = 0; i < t.n; ++i) for (size_t j = i + 1; j < t.n; ++j) if (t.age[ord[j]] < t.age[ord[i]]) { size_t x = ord[i]; ord[i] = ord[j]; ord[j] = x; }
        for (size_t i = 0; i < t.n; ++i) { size_t p = ord[i]; at(t.age[p]); c.insert(t.k[p], t.v[p]); for (uint64_t u = 1; u < t.cnt[p]; ++u) c.find(t.k[p]); }
    }
#elif T_POLICY == P_NONE /* ut_map / ut_set: uniform ttl fixed at construction; written at deadline - ttl, in ttl order */
    for (size_t p = 0; p < t.n; ++p) { at(t.d[p] - t.ttl); x_insert(c, t.k[p], t.v[p], 3, 0); }
#endif
    Abs got;
    alpha_real(c, got);
    bool same = got.n == t.n && got.ttl == t.ttl;
    for (size_t p = 0; p < AMAX && p < t.n; ++p)
        if (got.k[p] != t.k[p] || got.v[p] != t.v[p] || got.d[p] != t.d[p] || got.cnt[p] != t.cnt[p] || got.age[p] != t.age[p]) same = false;
    return same;
}
static int run_state_mode(FILE* f)
{
    long long last_now_, ttl_, tick_; unsigned long long n_;
    if (fscanf(f, " state %lld %lld %lld %llu", &last_now_, &ttl_, &tick_, &n_) != 4) return 2;
    Abs t; a_clear(t);
    t.n = n_; t.ttl = ttl_; t.tick = tick_;
    for (size_t p = 0; p < n_ && p < AMAX; ++p)
    {
        unsigned long long k, v, cnt; long long d, age;
        if (fscanf(f, " e %llu %llu %lld %llu %lld", &k, &v, &d, &cnt, &age) != 5) return 2;
        t.k[p] = k; t.v[p] = v; t.d[p] = d; t.cnt[p] = cnt; t.age[p] = age;
    }
    struct Call { unsigned long long op, k, v, al, pk; long long ttl, now; } calls[4];
    int ncalls = 0;
    while (ncalls < 4 && fscanf(f, " call %llu %llu %llu %llu %llu %lld %lld", &calls[ncalls].op, &calls[ncalls].k, &calls[ncalls].v,
                                &calls[ncalls].al, &calls[ncalls].pk, &calls[ncalls].ttl, &calls[ncalls].now) == 7)
        ++ncalls;
    if (ncalls == 0) return 2;
    unsigned long long draws[16] = {0};
    { char w[16]; if (fscanf(f, " %15s", w) == 1 && !strcmp(w, "draws")) { for (int i = 0; i < 16; ++i) if (fscanf(f, " %llu", &draws[i]) != 1) break; } }
    size_t next_draw = 0; (void)next_draw;
    cfg_ttl = ttl_; cfg_tick = tick_ > 0 ? tick_ : 5;
    g_now_ticks = 0;
    DECL_C(c);
    if (!build_state(c, t, last_now_)) { printf("BUILD-MISMATCH: the abstract pre-state was not reached by the state builder\n"); return 3; }
    Abs pre, post;
    alpha_real(c, pre);
    for (int ci = 0; ci < ncalls; ++ci)
    {
        Call& cl = calls[ci];
        g_step = ci;
        Ev ev; ev.op = (int)cl.op; ev.k = cl.k; ev.v = cl.v; ev.a = (uint8_t)cl.al; ev.pk = cl.pk != 0; ev.ttl = cl.ttl; ev.now = cl.now;
#if T_POLICY == P_RR
        {
            const bool will_draw = (cl.op == OP_INSERT) && c.size() == HCAP && (cl.al & 1) && !c.find(cl.k).has_value();
            unsigned long long draw = draws[next_draw & 15];
            if (will_draw) ++next_draw;
            size_t n = c.size();
            if (n > 0)
                for (unsigned s = 1; s < 100000; ++s) { std::mt19937 g(s); std::uniform_int_distribution<size_t> d{0, n - 1}; if (d(g) == (size_t)(draw % n)) { c.m_mt.seed(s); break; } }
        }
#endif
        Res r;
        exec_call(c, ev, r);
        alpha_real(c, post);
        printf("state-mode call %d op=%d k=%llu v=%llu a=%llu pk=%llu ttl=%lld now=%lld -> ok=%d val=%llu cnt=%llu n=%zu size=%zu\n", ci, (int)cl.op, cl.k, cl.v,
               cl.al, cl.pk, cl.ttl, cl.now, (int)r.ok, (unsigned long long)r.val, (unsigned long long)r.cnt, r.n, r.size);
        if (ci == ncalls - 1) // the clauses are those of the last call (earlier calls only set the stage)
            check_clauses(pre, post, ev, r);
        pre = post;
    }
    printf("REPLAY-DONE steps=1 clause_failures=%d\n", g_fail);
    return g_fail ? 1 : 0;
}

int main(int argc, char** argv)
{
    if (argc < 3) return 2;
    g_prop  = atoi(argv[1]);
    FILE* f = fopen(argv[2], "r");
    if (!f) return 2;
    {
        char w[16]; long pos = ftell(f);
        if (fscanf(f, " %15s", w) == 1 && !strcmp(w, "state")) { fseek(f, pos, SEEK_SET); int rc = run_state_mode(f); fclose(f); return rc; }
        fseek(f, pos, SEEK_SET);
    }
    long long a_, b_;
    if (fscanf(f, " cfg %lld %lld", &a_, &b_) != 2) return 2;
    cfg_ttl = a_; cfg_tick = b_;
    g_now_ticks = 0;
    {
        DECL_C(c);
        Abs pre, post;
        alpha_real(c, pre);
        unsigned long long op, k, v, al, pk, draw;
        long long ttl, now;
        g_step = 0;
        // the solver's random draws, in the order the library consumes them ("draws d0 d1 ..." line, optional)
        unsigned long long draws[16] = {0};
        size_t             next_draw = 0;
        {
            long pos = ftell(f);
            char word[16];
            while (fscanf(f, " %15s", word) == 1)
                if (!strcmp(word, "draws"))
                {
                    for (int i = 0; i < 16; ++i)
                        if (fscanf(f, " %llu", &draws[i]) != 1)
                            break;
                    break;
                }
            fseek(f, pos, SEEK_SET);
        }
        while (fscanf(f, " %llu %llu %llu %llu %llu %lld %lld %llu", &op, &k, &v, &al, &pk, &ttl, &now, &draw) == 8)
        {
            Ev ev;
            ev.op = (int)op; ev.k = k; ev.v = v; ev.a = (uint8_t)al; ev.pk = pk != 0; ev.ttl = ttl; ev.now = now;
#if T_POLICY == P_RR
            // make the real engine's next draw over [0, size-1] equal the solver's
            draw = draws[next_draw & 15];
            const bool will_draw = (op == OP_INSERT) && c.size() == HCAP && (al & 1) && !c.find(k).has_value();
            if (will_draw)
                ++next_draw;
            if (c.size() > 0)
            {
                size_t n = c.size();
                for (unsigned s = 1; s < 100000; ++s)
                {
                    std::mt19937                          g(s);
                    std::uniform_int_distribution<size_t> d{0, n - 1};
                    if (d(g) == (size_t)(draw % n)) { c.m_mt.seed(s); break; }
                }
            }
#endif
            Res r;
            exec_call(c, ev, r);
            last_now = ev.now;
            alpha_real(c, post);
            printf("step %d op=%d k=%llu v=%llu a=%llu pk=%llu ttl=%lld now=%lld -> ok=%d val=%llu cnt=%llu n=%zu size=%zu\n", g_step,
                   (int)op, k, v, al, pk, ttl, now, (int)r.ok, (unsigned long long)r.val, (unsigned long long)r.cnt, r.n, r.size);
            check_clauses(pre, post, ev, r);
            pre = post;
            ++g_step;
        }
    }
    fclose(f);
    printf("REPLAY-DONE steps=%d clause_failures=%d\n", g_step, g_fail);
    return g_fail ? 1 : 0;
}
