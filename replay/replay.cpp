// Replay of a counterexample history on the REAL build: real libcappuccino headers, real libstdc++,
// ASan/UBSan/_GLIBCXX_DEBUG, steady_clock::now() replaced at link time by a virtual clock, rr's random engine
// re-seeded so that its next draw is the one the solver chose.  The property clauses are the same
// relations (harness/clauses.hpp) evaluated over alpha_real(), the abstraction function written against the
// public std API.
//   build: g++ -std=c++17 -DVF_REAL -DVF_RUNTIME_PROP -Dprivate=public -DCONT_API='"api_lru.hpp"' -DHCAP=2 -DTS=no
//   run:   replay <prop> <history-file>
// history file: first line "cfg <ttl> <tick>", then one line per call: "<op> <k> <v> <allow> <peek> <ttl> <now> <draw>"
#include <chrono>
#include <cstdio>
#include <cstdlib>
#include <cstdint>
#include <random>
#include <cstring>
static int64_t g_now_ticks;
namespace std { namespace chrono { inline namespace _V2 {
steady_clock::time_point steady_clock::now() noexcept { return time_point(nanoseconds(g_now_ticks * 1000000LL)); }
}}}
int      g_prop;
int      g_fail;
#ifdef VAL_COUNTED
extern "C" {
int64_t g_live, g_bad;
}
#endif
int      g_step;
extern "C" {
void     __vf_assert(bool c, int id) { if (!c) { printf("CLAUSE-FAIL id=%d step=%d\n", id, g_step); ++g_fail; } }
void     __vf_assume(bool) {}
void     __vf_set_now(int64_t t) { g_now_ticks = t; }
uint64_t nondet_u64(void) { return 0; }
uint8_t  nondet_u8(void) { return 0; }
int64_t  nondet_i64(void) { return 0; }
bool     nondet_bool(void) { return false; }
float    nondet_float(void) { return 1.0f; }
}
#include CONT_API
#include "clauses.hpp"
#include "exec.hpp"
#define RANGE_ITER_RUNTIME 1
#include "ranges.hpp"
#define REL_ALPHA alpha_real
extern "C" void __vf_draw_mode(int) {}
#include "rel_clauses.hpp"
int64_t last_now, cfg_ttl = 100, cfg_tick = 5;

// ---- lifting of a K2 counterexample: reach the abstract pre-state alpha(pre) through the public API only ----
static void at(int64_t t) { g_now_ticks = t; }
// Slot-arrangement variants: variant v > 0 first inserts v dummy keys (long-lived) and erases them again once the
// cache is about to fill up / at the end, so that the target entries end up in other slots and free slots are left
// in other positions than a plain fill produces.  The abstract state reached is the same.
static int      g_variant;
static int      g_dummies_in;
static uint64_t dummy_key(int i) { return 0xD0D0D0D000000000ULL + (uint64_t)i; }
static void     dummies_begin(C& c)
{
    g_dummies_in = 0;
#if T_CAPPED
    for (int i = 0; i < g_variant && i + 1 < HCAP; ++i)
    {
#if T_TTL == 2 && T_HAS_UPDTTL
        c.update_ttl(std::chrono::milliseconds{(int64_t)1 << 41});
#endif
        x_insert(c, dummy_key(i), 0, 3, (int64_t)1 << 41);
        ++g_dummies_in;
    }
#else
    (void)c;
#endif
}
static void dummies_end(C& c)
{
    for (int i = 0; i < g_dummies_in; ++i) x_erase(c, dummy_key(i));
    g_dummies_in = 0;
}
// called before each target entry is written: make room when the dummies would otherwise cause an eviction
static void dummies_room(C& c)
{
#if T_CAPPED
    if (g_dummies_in > 0 && c.size() >= HCAP) dummies_end(c);
#else
    (void)c;
#endif
}
static bool build_state(C& c, const Abs& t, int64_t last_now)
{
    (void)last_now;
    at(0);
    dummies_begin(c);
#if T_POLICY == P_LRU && T_TTL == 0
    for (size_t p = t.n; p-- > 0;) { dummies_room(c); x_insert(c, t.k[p], t.v[p], 3, 0); }
#elif T_POLICY == P_LRU && T_TTL != 0
    // tlru / utlru: written at time -1 in the order of the ttl structure (so that entries with equal deadlines are filed in
    // the tie order of the target state), each with the TTL that yields its deadline (utlru: reconfigured before each
    // write); the recency order is then established by non-peek lookups, least recently used first
    at(-1);
    {
        size_t ord[AMAX]; for (size_t p = 0; p < t.n; ++p) ord[p] = p;
        for (size_t i = 0; i < t.n; ++i) for (size_t j = i + 1; j < t.n; ++j) if (t.o2[ord[j]] < t.o2[ord[i]]) { size_t x = ord[i]; ord[i] = ord[j]; ord[j] = x; }
        for (size_t i = 0; i < t.n; ++i)
        {
            size_t p = ord[i];
            dummies_room(c);
#if T_TTL == 2
            c.update_ttl(std::chrono::milliseconds{t.d[p] + 1});
#endif
            x_insert(c, t.k[p], t.v[p], 3, t.d[p] + 1);
        }
        dummies_end(c);
        for (size_t p = t.n; p-- > 0;) { Res r; x_find(c, t.k[p], false, r); }
    }
#elif T_POLICY == P_MRU || T_POLICY == P_FIFO || T_POLICY == P_RR
    for (size_t p = 0; p < t.n; ++p) { dummies_room(c); x_insert(c, t.k[p], t.v[p], 3, 0); }
#elif T_POLICY == P_LFU
    for (size_t p = 0; p < t.n; ++p) { dummies_room(c); x_insert(c, t.k[p], t.v[p], 3, 0); }
    dummies_end(c);
    for (size_t p = 0; p < t.n; ++p)
        for (uint64_t u = 1; u < t.cnt[p]; ++u) c.find(t.k[p]);
#elif T_POLICY == P_LFUDA
    // entries with a positive count are written at the time of their final age and raised to their count by lookups at that
    // same instant; an entry with count 0 (only aging produces it) is written tick+1 before its final age and decays at a
    // dynamically_age() call issued at that age.  Events run in time order (ties: age-list order of the target state).
    {
        struct Evt { int64_t time; int kind; size_t p; }; // kind 0: insert only, 1: dynamically_age(), 2: insert + lookups
        Evt    evs[2 * AMAX + 2];
        size_t ne = 0;
        for (size_t p = 0; p < t.n; ++p)
        {
            if (t.cnt[p] == 0)
            {
                evs[ne++] = Evt{t.age[p] - cfg_tick - 1, 0, p};
                bool dup = false;
                for (size_t i = 0; i < ne; ++i) if (evs[i].kind == 1 && evs[i].time == t.age[p]) dup = true;
                if (!dup) evs[ne++] = Evt{t.age[p], 1, p};
            }
            else
                evs[ne++] = Evt{t.age[p], 2, p};
        }
        for (size_t i = 0; i < ne; ++i)
            for (size_t j = i + 1; j < ne; ++j)
                if (evs[j].time < evs[i].time || (evs[j].time == evs[i].time && t.o2[evs[j].p] < t.o2[evs[i].p])) { Evt x = evs[i]; evs[i] = evs[j]; evs[j] = x; }
        for (size_t i = 0; i < ne; ++i)
        {
            const size_t p = evs[i].p;
            if (evs[i].time < 0) return false;
            at(evs[i].time);
            if (evs[i].kind == 1) { c.dynamically_age(); continue; }
            dummies_room(c);
            x_insert(c, t.k[p], t.v[p], 3, 0);
            if (evs[i].kind == 2) for (uint64_t u = 1; u < t.cnt[p]; ++u) c.find(t.k[p]);
        }
    }
#elif T_POLICY == P_NONE /* ut_map / ut_set: uniform ttl fixed at construction; written at deadline - ttl, in ttl order */
    for (size_t p = 0; p < t.n; ++p) { at(t.d[p] - t.ttl); x_insert(c, t.k[p], t.v[p], 3, 0); }
#endif
    dummies_end(c);
#if T_POLICY == P_LRU && T_TTL == 2
    c.update_ttl(std::chrono::milliseconds{t.ttl});
#endif
    Abs got;
    alpha_real(c, got);
    bool same = got.n == t.n && got.ttl == t.ttl;
    for (size_t p = 0; p < AMAX && p < t.n; ++p)
        if (got.k[p] != t.k[p] || got.v[p] != t.v[p] || got.d[p] != t.d[p] || got.cnt[p] != t.cnt[p] || got.age[p] != t.age[p]) same = false;
    return same;
}
struct Call { unsigned long long op, k, v, al, pk; long long ttl, now; };
static Call g_extra[4];
static int  g_nextra;
static int  nc_full;
static int  g_explore; // depth of the continuation search after the listed calls (0: off)
static unsigned long long g_draws[16];
static size_t             g_next_draw;
#if T_POLICY == P_RR
static void force_draw(C& c, const Call& cl)
{
    const bool will_draw = (cl.op == OP_INSERT) && c.size() == HCAP && (cl.al & 1) && !c.find(cl.k).has_value();
    unsigned long long draw = g_draws[g_next_draw & 15];
    if (will_draw) ++g_next_draw;
    size_t n = c.size();
    if (n > 0)
        for (unsigned s = 1; s < 100000; ++s) { std::mt19937 g(s); std::uniform_int_distribution<size_t> d{0, n - 1}; if (d(g) == (size_t)(draw % n)) { c.m_mt.seed(s); break; } }
}
#endif
// one attempt with one slot-arrangement variant; returns -1 if the abstract state was not reached
static int state_attempt(const Abs& t, long long last_now_, long long ttl_, long long tick_, const Call* calls, int ncalls, int kind,
                         int rmethod, int rn)
{
    cfg_ttl = ttl_; cfg_tick = tick_ > 0 ? tick_ : 5;
    g_now_ticks = 0; g_next_draw = 0; g_fail = 0;
    DECL_C(c);
    if (!build_state(c, t, last_now_)) return -1;
    if (kind == 0) // plain: the calls in order, the clauses of the last one
    {
        Abs pre, post;
        alpha_real(c, pre);
        for (int ci = 0; ci < ncalls; ++ci)
        {
            const Call& cl = calls[ci];
            g_step = ci;
            Ev ev; ev.op = (int)cl.op; ev.k = cl.k; ev.v = cl.v; ev.a = (uint8_t)cl.al; ev.pk = cl.pk != 0; ev.ttl = cl.ttl; ev.now = cl.now;
#if T_POLICY == P_RR
            force_draw(c, cl);
#endif
            Res r;
            exec_call(c, ev, r);
            if (g_prop != 8) alpha_real(c, post);
            if (g_nextra == 0) printf("state-mode[v%d] call %d op=%d k=%llu v=%llu a=%llu pk=%llu ttl=%lld now=%lld -> ok=%d val=%llu cnt=%llu n=%zu size=%zu\n", g_variant, ci,
                   (int)cl.op, cl.k, cl.v, cl.al, cl.pk, cl.ttl, cl.now, (int)r.ok, (unsigned long long)r.val, (unsigned long long)r.cnt, r.n, r.size);
            if (ci == ncalls - 1 && g_prop != 8) check_clauses(pre, post, ev, r);
            pre = post;
        }
        // continuation (exploration mode): the extra calls chosen by the explorer, clauses asserted around each
        for (int xi = 0; xi < g_nextra && g_fail == 0; ++xi)
        {
            const Call& cl = g_extra[xi];
            g_step = ncalls + xi;
            Ev ev; ev.op = (int)cl.op; ev.k = cl.k; ev.v = cl.v; ev.a = (uint8_t)cl.al; ev.pk = cl.pk != 0; ev.ttl = cl.ttl; ev.now = cl.now;
#if T_POLICY == P_RR
            force_draw(c, cl);
#endif
            Res r;
            exec_call(c, ev, r);
            if (g_prop != 8) { alpha_real(c, post); check_clauses(pre, post, ev, r); pre = post; }
            if (g_fail)
                printf("explore[v%d] continuation call %d op=%d k=%llu v=%llu a=%llu pk=%llu ttl=%lld now=%lld -> ok=%d val=%llu size=%zu\n", g_variant, xi,
                       (int)cl.op, cl.k, cl.v, cl.al, cl.pk, cl.ttl, cl.now, (int)r.ok, (unsigned long long)r.val, r.size);
        }
    }
    else
    {
        // twin container in the same state (range == singles) or freshly constructed (clear twin)
        g_now_ticks = 0;
        DECL_C(c2);
        Ev e[RMAX > 4 ? RMAX : 4];
        for (int ci = 0; ci < ncalls && ci < 4; ++ci)
        {
            e[ci].op = (int)calls[ci].op; e[ci].k = calls[ci].k; e[ci].v = calls[ci].v; e[ci].a = (uint8_t)calls[ci].al; e[ci].pk = calls[ci].pk != 0;
            e[ci].ttl = calls[ci].ttl; e[ci].now = calls[ci].now;
        }
        if (kind == 1)
        {
            int v = g_variant; // the twin is built the same way
            if (!build_state(c2, t, last_now_)) return -1;
            g_variant = v;
#if T_POLICY == P_RR
            c.m_mt.seed(4242); c2.m_mt.seed(4242); // both copies see the same draws
#endif
            __vf_set_now(calls[0].now);
            range_vs_singles(c, c2, rmethod, e, (size_t)rn, (uint8_t)calls[0].al, calls[0].pk != 0, t, calls[0].now);
            printf("state-mode[v%d] range method %d over %d elements vs singles: clause failures %d\n", g_variant, rmethod, rn, g_fail);
        }
        else
        {
#if T_HAS_CLEAR
            __vf_set_now(calls[0].now);
            c.clear();
#if T_TTL == 2 && T_HAS_UPDTTL
            c2.update_ttl(std::chrono::milliseconds{t.ttl});
#endif
#if T_POLICY == P_RR
            c.m_mt.seed(4242); c2.m_mt.seed(4242);
#endif
            for (int ci = 0; ci < ncalls && ci < 4; ++ci)
            {
                g_step = ci;
                twin_step(c, c2, e[ci]);
            }
            printf("state-mode[v%d] clear() then %d calls on the cleared container and on a fresh twin: clause failures %d\n", g_variant, ncalls, g_fail);
#endif
        }
    }
    return g_fail;
}
static int run_state_mode(FILE* f)
{
    long long last_now_, ttl_, tick_; unsigned long long n_;
    if (fscanf(f, " state %lld %lld %lld %llu", &last_now_, &ttl_, &tick_, &n_) != 4) return 2;
    Abs t; a_clear(t);
    t.n = n_; t.ttl = ttl_; t.tick = tick_;
    for (size_t p = 0; p < n_ && p < AMAX; ++p)
    {
        unsigned long long k, v, cnt, o2 = 0; long long d, age;
        if (fscanf(f, " e %llu %llu %lld %llu %lld", &k, &v, &d, &cnt, &age) != 5) return 2;
        { long pos = ftell(f); int ch; while ((ch = fgetc(f)) == ' ') {} if (ch >= '0' && ch <= '9') { ungetc(ch, f); if (fscanf(f, "%llu", &o2) != 1) o2 = 0; } else fseek(f, pos, SEEK_SET); }
        t.k[p] = k; t.v[p] = v; t.d[p] = d; t.cnt[p] = cnt; t.age[p] = age; t.o2[p] = (size_t)o2;
    }
    // optional mode line: "kind range <rmethod> <n>" or "kind twin"
    int kind = 0, rmethod = 0, rn = 0;
    {
        long pos = ftell(f); char w[16], w2[16];
        if (fscanf(f, " %15s %15s", w, w2) == 2 && !strcmp(w, "kind"))
        {
            if (!strcmp(w2, "range")) { kind = 1; if (fscanf(f, " %d %d", &rmethod, &rn) != 2) return 2; if (rmethod >= 24) { g_range_iter = true; rmethod -= 4; } }
            else kind = 2;
        }
        else fseek(f, pos, SEEK_SET);
    }
    {
        long pos = ftell(f); char w[16]; int d = 0;
        if (fscanf(f, " %15s %d", w, &d) == 2 && !strcmp(w, "explore")) g_explore = d; else fseek(f, pos, SEEK_SET);
    }
    Call calls[4];
    int  ncalls = 0;
    while (ncalls < 4 && fscanf(f, " call %llu %llu %llu %llu %llu %lld %lld", &calls[ncalls].op, &calls[ncalls].k, &calls[ncalls].v,
                                &calls[ncalls].al, &calls[ncalls].pk, &calls[ncalls].ttl, &calls[ncalls].now) == 7)
        ++ncalls;
    if (ncalls == 0) return 2;
    { char w[16]; if (fscanf(f, " %15s", w) == 1 && !strcmp(w, "draws")) { for (int i = 0; i < 16; ++i) if (fscanf(f, " %llu", &g_draws[i]) != 1) break; } }
#if T_POLICY == P_LFUDA
    // a count of 0 needs an aging point more than a tick after the entry was written; the library only sees time
    // differences, so the whole counterexample (ages, clock, calls) is shifted forward where the written time would be negative
    {
        long long need = 0;
        for (size_t p = 0; p < t.n && p < AMAX; ++p)
            if (t.cnt[p] == 0 && t.age[p] - (tick_ > 0 ? tick_ : 5) - 1 < 0 && (tick_ > 0 ? tick_ : 5) + 1 - t.age[p] > need) need = (tick_ > 0 ? tick_ : 5) + 1 - t.age[p];
        if (need > 0)
        {
            for (size_t p = 0; p < t.n && p < AMAX; ++p) t.age[p] += need;
            last_now_ += need;
            for (int ci = 0; ci < ncalls; ++ci) calls[ci].now += need;
            printf("state-mode: lfuda counterexample shifted forward by %lld ticks (count-0 entries need an earlier aging point)\n", need);
        }
    }
#endif
    bool reached = false;
    int  worst = 0;
    for (g_variant = 0; g_variant <= 2; ++g_variant)
    {
        int r = state_attempt(t, last_now_, ttl_, tick_, calls, ncalls, kind, rmethod, rn);
        if (r < 0) continue;
        reached = true;
        if (r > worst) worst = r;
        if (r > 0) break; // reproduced with this slot arrangement
    }
    // ---- exploration: the (state, calls) pair did not violate a clause by itself (e.g. it only broke the representation
    // invariant): enumerate short continuations on the real build (concrete runs are cheap) and evaluate the clauses
    if (reached && worst == 0 && kind == 0 && g_explore > 0)
    {
        uint64_t keys[AMAX + 3]; int nk = 0;
        for (size_t p = 0; p < t.n && p < AMAX; ++p) keys[nk++] = t.k[p];
        for (int ci = 0; ci < ncalls; ++ci) { bool has = false; for (int i = 0; i < nk; ++i) if (keys[i] == calls[ci].k) has = true; if (!has && nk < (int)AMAX + 1) keys[nk++] = calls[ci].k; }
        keys[nk++] = 0xABCD000000000001ULL; keys[nk++] = 0xABCD000000000002ULL;
        long long last = calls[ncalls - 1].now, times[AMAX + 4]; int nt = 0;
        times[nt++] = last; times[nt++] = last + 1;
        for (size_t p = 0; p < t.n && p < AMAX; ++p) if (t.d[p] >= last) { times[nt++] = t.d[p]; }
        times[nt++] = last + (t.tick > 0 ? t.tick : t.ttl) + 1;
        const int ops[8] = {OP_INSERT, OP_ERASE, OP_FIND, OP_CLEAN, OP_AGE, OP_CLEAR, OP_UPDTTL, OP_FIND_PLAIN};
        long budget = 400000; // concrete runs
        struct Cand { Call c; };
        static Cand cands[600]; int nc = 0;
        for (int oi = 0; oi < 8; ++oi)
        {
            if (!op_valid(ops[oi]) || ops[oi] == OP_CLEAR || ops[oi] == OP_UPDTTL || ops[oi] == OP_FIND_PLAIN) continue;
            const bool keyed = ops[oi] == OP_INSERT || ops[oi] == OP_ERASE || ops[oi] == OP_FIND;
            for (int ki = 0; ki < (keyed ? nk : 1); ++ki)
                for (int al = 1; al <= (ops[oi] == OP_INSERT ? 3 : 1); ++al)
                    for (int pk = 0; pk <= ((ops[oi] == OP_FIND && T_PEEK) ? 1 : 0); ++pk)
                        for (int ti = 0; ti < nt && nc < 600; ++ti)
                        {
                            Call c; c.op = ops[oi]; c.k = keys[ki]; c.v = 7700 + nc; c.al = al; c.pk = pk; c.ttl = (t.ttl > 0 ? t.ttl : 5); c.now = times[ti];
                            cands[nc++].c = c;
                        }
        }
        // depths 3 and 4 use a reduced candidate set (insert_or_update only, no peeks, the instant of the last call and one
        // instant past every deadline / the aging tick): enough for the slot-reuse chains that turn a broken free-list
        // into a wrong result or into undefined behaviour
        static Cand cands3[120]; int nc3 = 0;
        for (int i = 0; i < nc && nc3 < 120; ++i)
        {
            const Call& c = cands[i].c;
            if ((c.op == OP_INSERT && c.al != 3) || c.pk != 0) continue;
            if (c.now != times[0] && c.now != times[nt - 1]) continue;
            if (c.now == times[nt - 1] && !(T_TTL || T_HAS_AGE)) continue;
            cands3[nc3++] = cands[i];
        }
        if (g_explore > 4) g_explore = 4;
        nc_full = nc;
        // The exploration is a search on the real build: whatever it reproduces is a genuine public-API history, whichever
        // start it used.  Large use counts (the solver picks arbitrary ones) would cost that many lookups per rebuild, so
        // the counts are dense-ranked (order and ties preserved) for the search.
        Abs tx = t;
        {
            uint64_t mx = 0;
            for (size_t p = 0; p < t.n && p < AMAX; ++p) if (t.cnt[p] > mx) mx = t.cnt[p];
            if (mx > 4)
                for (size_t p = 0; p < t.n && p < AMAX; ++p)
                {
                    uint64_t r = 0;
                    for (size_t q = 0; q < t.n && q < AMAX; ++q)
                    {
                        bool first = true;
                        for (size_t q2 = 0; q2 < q; ++q2) if (t.cnt[q2] == t.cnt[q]) first = false;
                        if (first && t.cnt[q] != 0 && t.cnt[q] < t.cnt[p]) ++r;
                    }
                    tx.cnt[p] = t.cnt[p] == 0 ? 0 : r + 1;
                }
        }
        for (int depth = 1; depth <= g_explore && worst == 0; ++depth)
        {
            long idx[4] = {0, 0, 0, 0};
            const Cand* cs = depth >= 3 ? cands3 : cands;
            const int   nc = depth >= 3 ? nc3 : ::nc_full;
            long total = 1; for (int d = 0; d < depth; ++d) total *= nc;
            if (depth == 4 && total > budget) break;
            for (long it = 0; it < total && worst == 0 && budget > 0; ++it, --budget)
            {
                long x = it; bool mono = true; long long prevt = last;
                for (int d = 0; d < depth; ++d) { idx[d] = x % nc; x /= nc; g_extra[d] = cs[idx[d]].c; if (g_extra[d].now < prevt) mono = false; prevt = g_extra[d].now; }
                if (!mono) continue;
                g_nextra = depth;
                for (g_variant = 0; g_variant <= 2 && worst == 0; ++g_variant)
                {
                    int r = state_attempt(tx, last_now_, ttl_, tick_, calls, ncalls, 0, 0, 0);
                    if (r > 0) { worst = r; printf("EXPLORE-REPRODUCED depth=%d variant=%d\n", depth, g_variant); }
                }
            }
        }
        g_nextra = 0;
    }
    if (!reached) { printf("BUILD-MISMATCH: the abstract pre-state was not reached by the state builder\n"); return 3; }
    printf("REPLAY-DONE steps=%d clause_failures=%d\n", ncalls, worst);
    return worst ? 1 : 0;
}

static unsigned long long h_draws[16];
// history mode: the listed calls from the real constructor; clauses evaluated around every call (not for C08)
static void run_hist(const Call* hs, int nh, bool verbose)
{
    g_now_ticks = 0;
    last_now    = 0;
    size_t next_draw = 0;
    (void)next_draw;
    DECL_C(c);
    Abs pre, post;
    alpha_real(c, pre);
    g_step = 0;
    for (int i = 0; i < nh; ++i)
    {
        const unsigned long long op = hs[i].op, k = hs[i].k, v = hs[i].v, al = hs[i].al, pk = hs[i].pk;
        const long long          ttl = hs[i].ttl, now = hs[i].now;
        Ev ev;
        ev.op = (int)op; ev.k = k; ev.v = v; ev.a = (uint8_t)al; ev.pk = pk != 0; ev.ttl = ttl; ev.now = now;
#if T_POLICY == P_RR
        // make the real engine's next draw over [0, size-1] equal the solver's
        unsigned long long draw = h_draws[next_draw & 15];
        const bool will_draw = (op == OP_INSERT) && c.size() == HCAP && (al & 1) && !c.find(k).has_value();
        if (will_draw)
            ++next_draw;
        if (c.size() > 0)
        {
            size_t n = c.size();
            for (unsigned s = 1; s < 100000; ++s)
            {
                std::mt19937                          g(s);
                std::uniform_int_distribution<size_t> d{0, n - 1};
                if (d(g) == (size_t)(draw % n)) { c.m_mt.seed(s); break; }
            }
        }
#endif
        Res r;
        exec_call(c, ev, r);
        last_now = ev.now;
        if (g_prop != 8) alpha_real(c, post);
        if (verbose)
            printf("step %d op=%d k=%llu v=%llu a=%llu pk=%llu ttl=%lld now=%lld -> ok=%d val=%llu cnt=%llu n=%zu size=%zu\n", g_step,
                   (int)op, k, v, al, pk, ttl, now, (int)r.ok, (unsigned long long)r.val, (unsigned long long)r.cnt, r.n, r.size);
        if (g_prop != 8) check_clauses(pre, post, ev, r);
        pre = post;
        ++g_step;
    }
}

int main(int argc, char** argv)
{
    if (argc < 3) return 2;
    g_prop  = atoi(argv[1]);
    FILE* f = fopen(argv[2], "r");
    if (!f) return 2;
    {
        char w[16]; long pos = ftell(f);
        if (fscanf(f, " %15s", w) == 1 && !strcmp(w, "state")) { fseek(f, pos, SEEK_SET); int rc = run_state_mode(f); fclose(f); return rc; }
        fseek(f, pos, SEEK_SET);
    }
    long long a_, b_;
    if (fscanf(f, " cfg %lld %lld", &a_, &b_) != 2) return 2;
    cfg_ttl = a_; cfg_tick = b_;
    { long pos = ftell(f); char w[16]; int q = 0; if (fscanf(f, " %15s %d", w, &q) == 2 && !strcmp(w, "mlf4") && q > 0) cfg_mlf = q / 4.0f; else fseek(f, pos, SEEK_SET); }
    // the solver's random draws, in the order the library consumes them ("draws d0 d1 ..." line, optional)
    {
        long pos = ftell(f);
        char word[16];
        while (fscanf(f, " %15s", word) == 1)
            if (!strcmp(word, "draws"))
            {
                for (int i = 0; i < 16; ++i)
                    if (fscanf(f, " %llu", &h_draws[i]) != 1)
                        break;
                break;
            }
        fseek(f, pos, SEEK_SET);
    }
    static Call hs[64];
    int         nh = 0;
    {
        unsigned long long draw;
        while (nh < 60 && fscanf(f, " %llu %llu %llu %llu %llu %lld %lld %llu", &hs[nh].op, &hs[nh].k, &hs[nh].v, &hs[nh].al, &hs[nh].pk, &hs[nh].ttl,
                                 &hs[nh].now, &draw) == 8)
            ++nh;
    }
    run_hist(hs, nh, true);
    // C08: the solver's history ends where the standard's contract is first broken (e.g. an insertion that may rehash while
    // iterators are stored); the undefined behaviour shows on the real build when the stale state is USED.  Search short
    // continuations (the sanitizers / checked iterators abort the process at the first one that does).
    if (g_prop == 8 && g_fail == 0 && nh > 0)
    {
        uint64_t keys[16]; int nk = 0;
        for (int i = 0; i < nh; ++i) { bool has = false; for (int j = 0; j < nk; ++j) if (keys[j] == hs[i].k) has = true; if (!has && nk < 12) keys[nk++] = hs[i].k; }
        keys[nk++] = 0xABCD000000000001ULL; keys[nk++] = 0xABCD000000000002ULL;
        static Call cand[64]; int nc = 0;
        const int ops[5] = {OP_INSERT, OP_ERASE, OP_FIND, OP_CLEAN, OP_AGE};
        for (int oi = 0; oi < 5; ++oi)
        {
            if (!op_valid(ops[oi])) continue;
            const bool keyed = oi < 3;
            for (int ki = 0; ki < (keyed ? nk : 1) && nc < 64; ++ki)
            {
                Call c; c.op = ops[oi]; c.k = keys[ki]; c.v = 8800 + nc; c.al = 3; c.pk = 0; c.ttl = cfg_ttl > 0 ? cfg_ttl : 5; c.now = hs[nh - 1].now;
                cand[nc++] = c;
            }
        }
        for (int depth = 1; depth <= 3 && nh + depth < 64; ++depth)
        {
            long total = 1; for (int d = 0; d < depth; ++d) total *= nc;
            for (long it = 0; it < total; ++it)
            {
                long x = it;
                for (int d = 0; d < depth; ++d) { hs[nh + d] = cand[x % nc]; x /= nc; }
                run_hist(hs, nh + depth, false);
            }
        }
        printf("CONTINUATIONS-EXPLORED up to depth 3: no sanitizer / checked-iterator abort\n");
    }
    fclose(f);
#ifdef VAL_COUNTED
    // the container is gone: every instance of the counting value type must be gone too, none touched while dead
    printf("COUNTED live=%lld bad=%lld\n", (long long)g_live, (long long)g_bad);
    if (g_live != 0 || g_bad != 0) { printf("CLAUSE-FAIL id=8002 step=%d\n", g_step); ++g_fail; }
#endif
    printf("REPLAY-DONE steps=%d clause_failures=%d\n", g_step, g_fail);
    return g_fail ? 1 : 0;
}
