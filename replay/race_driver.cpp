// C07 replay: two real threads on the REAL build under ThreadSanitizer.  Thread A keeps mutating the container
// (insert / erase of a few keys), thread B keeps calling the method under test; a happens-before race on the
// container's state makes TSan print "WARNING: ThreadSanitizer: data race" (exit code 66).
//   build: g++ -std=c++17 -O1 -g -fsanitize=thread -DVF_REAL -DVF_RUNTIME_PROP -Dprivate=public -DCONT_API='"api_lru.hpp"'
//          -DHCAP=4 -DTS=yes -DMETHOD=<id>
#include <atomic>
#include <chrono>
#include <cstdint>
#include <cstdio>
#include <cstdlib>
#include <thread>
int g_prop;
extern "C" {
void     __vf_assert(bool, int) {}
void     __vf_assume(bool) {}
void     __vf_set_now(int64_t) {}
uint64_t nondet_u64(void) { return 0; }
uint8_t  nondet_u8(void) { return 0; }
int64_t  nondet_i64(void) { return 0; }
bool     nondet_bool(void) { return false; }
float    nondet_float(void) { return 1.0f; }
}
#include CONT_API
// methods 24..27 are the iterator-pair overloads of 20..23 (fifo_cache only, see ranges.hpp)
#if METHOD >= 24 && METHOD <= 27
#define RANGE_ITER_FORM 1
#define METHOD_EFF (METHOD - 4)
#else
#define METHOD_EFF METHOD
#endif
#include "clauses.hpp"
#include "exec.hpp"
#include "ranges.hpp"
int64_t last_now, cfg_ttl = 1000, cfg_tick = 5;
#define M_SIZE 10
#define M_EMPTY 11
#define M_CAPACITY 12
#define M_INSERT_RANGE 20
#define M_ERASE_RANGE 21
#define M_FIND_RANGE 22
#define M_FIND_RANGE_FILL 23

static uint64_t call_method(C& c, uint64_t i)
{
    Ev e[RMAX];
    for (int j = 0; j < RMAX; ++j) { e[j].op = METHOD; e[j].k = (i + j) % 6; e[j].v = i; e[j].a = (uint8_t)(1 + (i >> 1) % 3); e[j].pk = (i & 1) != 0; e[j].ttl = 1000; e[j].now = 0; }
    Res  r, out[RMAX];
    bool ko = true;
    uint64_t sink = 0;
#if METHOD == M_SIZE
    sink = c.size();
#elif METHOD == M_EMPTY
    sink = c.empty();
#elif METHOD == M_CAPACITY
#if T_CAPPED
    sink = c.capacity();
#endif
#elif METHOD_EFF == M_INSERT_RANGE
    sink = x_insert_range(c, e, 2, e[0].a); // every allow mode in turn: a path may be taken for one mode only
#elif METHOD_EFF == M_ERASE_RANGE
    sink = x_erase_range(c, e, 2);
#elif METHOD_EFF == M_FIND_RANGE
    sink = x_find_range(c, e, 2, e[0].pk, out, &ko);
#elif METHOD_EFF == M_FIND_RANGE_FILL
    x_find_range_fill(c, e, 2, e[0].pk, out, &ko);
#else
    {
        const Ev& ev = e[0];
        const bool pk = T_PEEK ? ev.pk : false;
        switch (METHOD)
        {
            case OP_INSERT: sink = x_insert(c, ev.k, ev.v, ev.a, ev.ttl); break;
            case OP_ERASE: sink = x_erase(c, ev.k); break;
            case OP_FIND: x_find(c, ev.k, pk, r); sink = r.ok; break;
#if T_POLICY == P_LFU || T_POLICY == P_LFUDA
            case OP_FIND_PLAIN: x_find_plain(c, ev.k, pk, r); sink = r.ok; break;
#endif
#if T_HAS_CLEAN
            case OP_CLEAN: sink = c.clean_expired_values(); break;
#endif
#if T_HAS_AGE
            case OP_AGE: sink = c.dynamically_age(); break;
#endif
#if T_HAS_CLEAR
            case OP_CLEAR: c.clear(); break;
#endif
#if T_HAS_UPDTTL
            case OP_UPDTTL: c.update_ttl(std::chrono::milliseconds{1000 + (int64_t)(i % 7)}); break;
#endif
            default: break;
        }
    }
#endif
    return sink;
}

int main()
{
    DECL_C(c);
    std::atomic<bool> stop{false};
    volatile uint64_t sinkA = 0, sinkB = 0;
    std::thread       a([&] {
        for (uint64_t i = 0; !stop.load(std::memory_order_relaxed) && i < 200000; ++i)
        {
            // every kind of mutation the container offers, so that each shared field has a concurrent writer
            sinkA += x_insert(c, i % 6, i, 3, 1000);
            if (i % 3 == 0) sinkA += x_erase(c, (i + 1) % 6);
#if T_HAS_UPDTTL
            if (i % 5 == 0) c.update_ttl(std::chrono::milliseconds{1000 + (int64_t)(i % 3)});
#endif
#if T_HAS_CLEAN
            if (i % 7 == 0) sinkA += c.clean_expired_values();
#endif
#if T_HAS_AGE
            if (i % 11 == 0) sinkA += c.dynamically_age();
#endif
#if T_HAS_CLEAR
            if (i % 97 == 0) c.clear();
#endif
        }
    });
    std::thread b([&] {
        for (uint64_t i = 0; i < 20000; ++i) sinkB += call_method(c, i);
        stop.store(true, std::memory_order_relaxed);
    });
    b.join();
    a.join();
    printf("RACE-DRIVER-DONE %llu %llu\n", (unsigned long long)sinkA, (unsigned long long)sinkB);
    return 0;
}
