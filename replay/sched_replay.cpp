// C06 replay: nested schedules at lock granularity, deterministically, on ONE OS thread of the REAL build.
// pthread_mutex_lock is interposed: just before the j-th acquisition made by operation A (logical thread A) a
// second logical thread's operation B (an observer: find_range over two keys + size()) runs to completion.
// B starting at that point is a legal schedule of two real threads whenever A does not hold the lock there, which
// is exactly the situation K3(c) flags (more than one critical section in one public call).
// The outcome (A's result, B's result, the final contents) must equal that of A;B or of B;A run sequentially from
// the same state; otherwise the history is not linearizable and "NONLINEARIZABLE ..." is printed (exit 1).
//   build: g++ -std=c++17 -O1 -g -DVF_REAL -DVF_RUNTIME_PROP -Dprivate=public -DCONT_API='"api_lru.hpp"' -DHCAP=2 -DTS=yes
//          -DMETHOD=<id> sched_replay.cpp -ldl -lpthread
#include <dlfcn.h>
#include <pthread.h>
#include <chrono>
#include <cstdint>
#include <cstdio>
#include <cstdlib>
#include <cstring>
#include <functional>
static int64_t g_now_ticks;
namespace std { namespace chrono { inline namespace _V2 {
steady_clock::time_point steady_clock::now() noexcept { return time_point(nanoseconds(g_now_ticks * 1000000LL)); }
}}}
int g_prop;
extern "C" {
void     __vf_assert(bool, int) {}
void     __vf_assume(bool) {}
void     __vf_set_now(int64_t t) { g_now_ticks = t; }
uint64_t nondet_u64(void) { return 0; }
uint8_t  nondet_u8(void) { return 0; }
int64_t  nondet_i64(void) { return 0; }
bool     nondet_bool(void) { return false; }
float    nondet_float(void) { return 1.0f; }
}
// ---- schedule point: before a mutex acquisition ----
static bool                  g_armed, g_in_b;
static int                   g_acq, g_target;
static std::function<void()> g_b;
static bool                  g_b_ran;
extern "C" int pthread_mutex_lock(pthread_mutex_t* m)
{
    static int (*real)(pthread_mutex_t*) = (int (*)(pthread_mutex_t*))dlsym(RTLD_NEXT, "pthread_mutex_lock");
    if (g_armed && !g_in_b)
    {
        ++g_acq;
        if (g_acq == g_target)
        {
            g_in_b = true;
            g_b();
            g_b_ran = true;
            g_in_b  = false;
        }
    }
    return real(m);
}
#include CONT_API
// methods 24..27 are the iterator-pair overloads of 20..23 (fifo_cache only, see ranges.hpp)
#if METHOD >= 24 && METHOD <= 27
#define RANGE_ITER_FORM 1
#define METHOD_EFF (METHOD - 4)
#else
#define METHOD_EFF METHOD
#endif
#include "clauses.hpp"
#include "exec.hpp"
#include "ranges.hpp"
int64_t last_now, cfg_ttl = 1000000, cfg_tick = 1000000;
#define M_INSERT_RANGE 20
#define M_ERASE_RANGE 21
#define M_FIND_RANGE 22
#define M_FIND_RANGE_FILL 23
#define NK 4

struct Obs { uint64_t a_res; bool b_has[2]; uint64_t b_val[2]; size_t b_size; bool fin[NK]; uint64_t finv[NK]; size_t fsize; };
static bool same(const Obs& x, const Obs& y)
{
    if (x.a_res != y.a_res || x.b_size != y.b_size || x.fsize != y.fsize) return false;
    for (int i = 0; i < 2; ++i) if (x.b_has[i] != y.b_has[i] || (x.b_has[i] && x.b_val[i] != y.b_val[i])) return false;
    for (int i = 0; i < NK; ++i) if (x.fin[i] != y.fin[i] || (x.fin[i] && x.finv[i] != y.finv[i])) return false;
    return true;
}
// the common start: m entries written at time 0.  For clean_expired_values / dynamically_age the clock then moves past the
// TTL / the aging tick, so that the method under test has real work to do (several expired / idle entries) and a second
// logical thread nested between its critical sections can observe a partial sweep.
static void prefix(C& c, int m)
{
    __vf_set_now(0);
    for (int i = 0; i < m; ++i) x_insert(c, (uint64_t)i, 100 + i, 3, 1000000);
#if METHOD == OP_CLEAN || METHOD == OP_AGE
    __vf_set_now(3000000);
#endif
}
static uint64_t opA(C& c, uint64_t k1, uint64_t k2)
{
    Ev e[RMAX];
    for (int j = 0; j < RMAX; ++j) { e[j].op = METHOD; e[j].k = j == 0 ? k1 : k2; e[j].v = 500 + j; e[j].a = 3; e[j].pk = true; e[j].ttl = 1000000; e[j].now = 0; }
    Res out[RMAX]; bool ko = true; Res r;
#if METHOD_EFF == M_INSERT_RANGE
    return x_insert_range(c, e, 2, 3);
#elif METHOD_EFF == M_ERASE_RANGE
    return x_erase_range(c, e, 2);
#elif METHOD_EFF == M_FIND_RANGE
    { uint64_t n = x_find_range(c, e, 2, false, out, &ko); return n * 100 + out[0].ok * 10 + out[1].ok + 1000 * (out[0].ok ? out[0].val : 0) + 1000000 * (out[1].ok ? out[1].val : 0); }
#elif METHOD_EFF == M_FIND_RANGE_FILL
    { x_find_range_fill(c, e, 2, false, out, &ko); return out[0].ok * 10 + out[1].ok + 1000 * (out[0].ok ? out[0].val : 0) + 1000000 * (out[1].ok ? out[1].val : 0); }
#elif METHOD == OP_CLEAN && T_HAS_CLEAN
    return c.clean_expired_values();
#elif METHOD == OP_CLEAR && T_HAS_CLEAR
    c.clear(); return 0;
#elif METHOD == OP_AGE && T_HAS_AGE
    return c.dynamically_age();
#elif METHOD == OP_INSERT
    return x_insert(c, k1, 500, 3, 1000000);
#elif METHOD == OP_ERASE
    return x_erase(c, k1);
#elif METHOD == OP_FIND_PLAIN && (T_POLICY == P_LFU || T_POLICY == P_LFUDA)
    r.cnt = 0; x_find_plain(c, k1, false, r); return r.ok ? 1 + 7 * r.val : 0;
#else
    // the complete result: presence, value and (lfu/lfuda) the reported use count
    r.cnt = 0; x_find(c, k1, false, r); return r.ok ? 1 + 7 * r.val + 1000003 * (T_POLICY == P_LFU || T_POLICY == P_LFUDA ? r.cnt : 0) : 0;
#endif
}
// logical thread B: kind 0 = observer (find_range of two keys with peek + size), kind 1 = writer (insert_range of the two
// keys with fresh values), kind 2 = eraser (erase_range of the two keys); its own results are recorded in o
static int g_bkind;
static void opB(C& c, uint64_t k1, uint64_t k2, Obs& o)
{
    Ev e[RMAX];
    for (int j = 0; j < RMAX; ++j) { e[j].op = 0; e[j].k = j == 0 ? k1 : k2; e[j].v = 900 + j; e[j].a = 3; e[j].pk = true; e[j].ttl = 1000000; e[j].now = 0; }
    Res out[RMAX]; bool ko = true;
    for (int i = 0; i < 2; ++i) { o.b_has[i] = false; o.b_val[i] = 0; }
    if (g_bkind == 0)
    {
        x_find_range(c, e, 2, true, out, &ko);
        for (int i = 0; i < 2; ++i) { o.b_has[i] = out[i].ok; o.b_val[i] = out[i].val; }
    }
    else if (g_bkind == 1)
        o.b_val[0] = x_insert_range(c, e, 2, 3);
    else
        o.b_val[0] = x_erase_range(c, e, 2);
    o.b_size = c.size();
}
static void final_probe(C& c, Obs& o)
{
    for (int i = 0; i < NK; ++i) { Res r; r.cnt = 0; x_find(c, (uint64_t)i, true, r); o.fin[i] = r.ok; o.finv[i] = r.val + 1000003 * (T_POLICY == P_LFU || T_POLICY == P_LFUDA ? r.cnt : 0); }
    o.fsize = c.size();
}

int main()
{
    int checked = 0;
    for (g_bkind = 0; g_bkind < 3; ++g_bkind)
    for (int m = 0; m <= HCAP; ++m)
        for (uint64_t k1 = 0; k1 < NK; ++k1)
            for (uint64_t k2 = 0; k2 < NK; ++k2)
                for (uint64_t b1 = 0; b1 < NK; ++b1)
                    for (uint64_t b2 = b1; b2 < NK; ++b2)
                    {
                        Obs ab, ba;
                        { DECL_C(c); prefix(c, m); ab.a_res = opA(c, k1, k2); opB(c, b1, b2, ab); final_probe(c, ab); }
                        { DECL_C(c); prefix(c, m); opB(c, b1, b2, ba); ba.a_res = opA(c, k1, k2); final_probe(c, ba); }
                        for (int j = 2; j <= 4; ++j)
                        {
                            Obs n;
                            DECL_C(c);
                            prefix(c, m);
                            g_acq = 0; g_target = j; g_b_ran = false;
                            g_b     = [&] { opB(c, b1, b2, n); };
                            g_armed = true;
                            n.a_res = opA(c, k1, k2);
                            g_armed = false;
                            if (!g_b_ran) break; // A made fewer than j acquisitions
                            final_probe(c, n);
                            ++checked;
                            if (!same(n, ab) && !same(n, ba))
                            {
                                printf("NONLINEARIZABLE method=%d prefix=%d A(keys %llu,%llu) B[kind %d: 0 find_range+size, 1 insert_range, 2 erase_range](%llu,%llu) nested before acquisition %d of A: "
                                       "A=%llu B=(%d,%d,size %zu) final size %zu; sequential A;B gives B=(%d,%d,size %zu), B;A gives B=(%d,%d,size %zu)\n",
                                       METHOD, m, (unsigned long long)k1, (unsigned long long)k2, g_bkind, (unsigned long long)b1, (unsigned long long)b2, j,
                                       (unsigned long long)n.a_res, n.b_has[0], n.b_has[1], n.b_size, n.fsize, ab.b_has[0], ab.b_has[1], ab.b_size,
                                       ba.b_has[0], ba.b_has[1], ba.b_size);
                                return 1;
                            }
                        }
                    }
    printf("SCHED-REPLAY-DONE nested schedules checked=%d (0 means A never takes the lock more than once)\n", checked);
    return 0;
}
