// C15 replay on the REAL build: many evictions with the real random engine; every resident position of rr_cache's
// slot array must be chosen sometimes and none always ("no resident position is immune, no fixed position is always
// chosen").  A solver verdict "position p can never be the victim" / "two different draws give the same victim" is
// confirmed here by an empirical count of 0 (or of all) over thousands of evictions.
#include <chrono>
#include <cstdint>
#include <cstdio>
#include <cstdlib>
int g_prop;
extern "C" {
void     __vf_assert(bool, int) {}
void     __vf_assume(bool) {}
void     __vf_set_now(int64_t) {}
uint64_t nondet_u64(void) { return 0; }
uint8_t  nondet_u8(void) { return 0; }
int64_t  nondet_i64(void) { return 0; }
bool     nondet_bool(void) { return false; }
float    nondet_float(void) { return 1.0f; }
}
#include CONT_API
int64_t last_now, cfg_ttl = 100, cfg_tick = 5;
int main()
{
    const int EV = 4000;
    long      cnt[HCAP] = {0};
    C         c(HCAP);
    for (uint64_t k = 0; k < HCAP; ++k) c.insert(k, k);
    uint64_t next = HCAP;
    bool     bad  = false;
    // survival: number of consecutive evictions each resident key has lived through
    uint64_t rk[HCAP];
    long     surv[HCAP];
    long     max_surv = 0;
    for (int p = 0; p < HCAP; ++p) { rk[p] = (uint64_t)p; surv[p] = 0; }
    for (int i = 0; i < EV; ++i)
    {
        Abs pre, post;
        alpha_real(c, pre);
        c.insert(next, next);
        alpha_real(c, post);
        size_t gone = 0, ngone = 0;
        for (size_t p = 0; p < pre.n; ++p)
            if (a_idx(post, pre.k[p]) == NPOS) { gone = p; ++ngone; }
        if (ngone != 1 || a_idx(post, next) == NPOS || post.n != HCAP) { printf("BAD-EVICTION at %d: %zu prior residents removed\n", i, ngone); bad = true; break; }
        cnt[gone]++;
        for (int p = 0; p < HCAP; ++p)
        {
            if (rk[p] == pre.k[gone]) { rk[p] = next; surv[p] = 0; }
            else { surv[p]++; if (surv[p] > max_surv) max_surv = surv[p]; }
        }
        ++next;
    }
    printf("victim open-list-position histogram over %d evictions at capacity %d:", EV, HCAP);
    for (int p = 0; p < HCAP; ++p) printf(" %ld", cnt[p]);
    printf("; longest run of evictions survived by one entry: %ld\n", max_surv);
    for (int p = 0; p < HCAP; ++p)
    {
        if (HCAP > 1 && cnt[p] == 0) { printf("IMMUNE position %d was never chosen\n", p); bad = true; }
        if (HCAP > 1 && cnt[p] == EV) { printf("FIXED position %d was always chosen\n", p); bad = true; }
    }
    // with a uniform choice among HCAP <= 4 residents an entry survives 300 consecutive evictions with probability < 1e-37
    if (HCAP > 1 && HCAP <= 4 && max_surv >= 300) { printf("IMMUNE an entry survived %ld consecutive evictions\n", max_surv); bad = true; }
    printf(bad ? "RR-SPREAD-FAIL\n" : "RR-SPREAD-OK\n");
    return bad ? 1 : 0;
}
