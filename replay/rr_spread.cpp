// C15 replay on the REAL build: many evictions with the real random engine; every resident position of rr_cache's
// slot array must be chosen sometimes and none always ("no resident position is immune, no fixed position is always
// chosen").  A solver verdict "position p can never be the victim" / "two different draws give the same victim" is
// confirmed here by an empirical count of 0 (or of all) over thousands of evictions.
#include <chrono>
#include <cstdint>
#include <cstdio>
#include <cstdlib>
int g_prop;
extern "C" {
void     __vf_assert(bool, int) {}
void     __vf_assume(bool) {}
void     __vf_set_now(int64_t) {}
uint64_t nondet_u64(void) { return 0; }
uint8_t  nondet_u8(void) { return 0; }
int64_t  nondet_i64(void) { return 0; }
bool     nondet_bool(void) { return false; }
float    nondet_float(void) { return 1.0f; }
}
#include CONT_API
int64_t last_now, cfg_ttl = 100, cfg_tick = 5;
// one phase of EV evictions; mode 0: plain stream of new keys; mode 1: before every eviction one resident is erased and
// the free slot refilled with a new key (the cache passes through "not full" between evictions, which is where an engine
// that is re-seeded or otherwise reset on the way back to "full" repeats itself); mode 2: as 1 but the erased resident
// rotates through the positions
static bool phase(int mode, uint64_t& next)
{
    const int EV = 4000;
    long      cnt[HCAP] = {0};
    C         c(HCAP);
    for (uint64_t k = 0; k < HCAP; ++k) c.insert(next + k, k);
    next += HCAP;
    bool     bad = false;
    long     max_surv = 0, streak = 0;
    uint64_t streak_key = ~0ull;
    for (int i = 0; i < EV; ++i)
    {
        if (mode != 0 && HCAP > 1)
        {
            Abs cur;
            alpha_real(c, cur);
            const size_t victim = mode == 1 ? 0 : (size_t)i % cur.n;
            c.erase(cur.k[victim]);
            c.insert(next, next);
            ++next;
        }
        Abs pre, post;
        alpha_real(c, pre);
        c.insert(next, next);
        alpha_real(c, post);
        size_t gone = 0, ngone = 0;
        for (size_t p = 0; p < pre.n; ++p)
            if (a_idx(post, pre.k[p]) == NPOS) { gone = p; ++ngone; }
        if (ngone != 1 || a_idx(post, next) == NPOS || post.n != HCAP) { printf("BAD-EVICTION (mode %d) at %d: %zu prior residents removed\n", mode, i, ngone); return true; }
        cnt[gone]++;
        ++next;
        // survival of single entries (mode 0 only: explicit erases end lifetimes otherwise)
        if (mode == 0)
        {
            bool alive = streak_key != ~0ull && a_idx(post, streak_key) != NPOS;
            if (alive) { ++streak; if (streak > max_surv) max_surv = streak; }
            else { streak_key = post.k[0]; streak = 0; }
        }
    }
    printf("mode %d: victim position histogram over %d evictions at capacity %d:", mode, EV, HCAP);
    for (int p = 0; p < HCAP; ++p) printf(" %ld", cnt[p]);
    printf("; longest observed survival run: %ld\n", max_surv);
    for (int p = 0; p < HCAP; ++p)
    {
        if (HCAP > 1 && cnt[p] == 0) { printf("IMMUNE position %d was never chosen (mode %d)\n", p, mode); bad = true; }
        if (HCAP > 1 && cnt[p] == EV) { printf("FIXED position %d was always chosen (mode %d)\n", p, mode); bad = true; }
    }
    // with a uniform choice among HCAP <= 4 residents an entry survives 300 consecutive evictions with probability < 1e-37
    if (mode == 0 && HCAP > 1 && HCAP <= 4 && max_surv >= 300) { printf("IMMUNE an entry survived %ld consecutive evictions\n", max_surv); bad = true; }
    return bad;
}
int main()
{
    uint64_t next = 1000;
    bool     bad  = false;
    for (int mode = 0; mode < 3; ++mode) bad = phase(mode, next) || bad;
    printf(bad ? "RR-SPREAD-FAIL\n" : "RR-SPREAD-OK\n");
    return bad ? 1 : 0;
}
