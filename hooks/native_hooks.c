/* native environment of the ir2c-generated C (translation validation): real malloc, controllable clock and draws */
#include <stdint.h>
#include <stdio.h>
#include <stdlib.h>
void  __vf_free(void* p) { free(p); }
void  __vf_check(_Bool c, int code) { if (!c) { printf("VF_CHECK FAIL code=%d\n", code); exit(3); } }
void  __vf_assert(_Bool c, int id) { (void)c; (void)id; }
void  __vf_assume(_Bool c) { if (!c) { printf("VF_ASSUME cut (model bound)\n"); exit(4); } }
void  __vf_unreachable(void) { printf("UNREACHABLE\n"); exit(5); }
int64_t g_now;
int64_t __vf_now(void) { return g_now; }
void    __vf_set_now(int64_t t) { g_now = t; }
static uint64_t next_draw;
void     __vf_next_draw(uint64_t r) { next_draw = r; }
uint64_t __vf_random(uint64_t lo, uint64_t hi) { uint64_t r = next_draw; if (r < lo || r > hi) r = lo; return r; }
void __vf_mutex_lock(void* m) { (void)m; }
void __vf_mutex_unlock(void* m) { (void)m; }
void __vf_register_alloc(const void* p) { (void)p; }
void __vf_access(const void* p, int w) { (void)p; (void)w; }
void __vf_lib_write(const void* p) { (void)p; }
uint64_t nondet_u64(void) { return 0; }
uint8_t  nondet_u8(void) { return 0; }
int64_t  nondet_i64(void) { return 0; }
_Bool    nondet_bool(void) { return 0; }
float    nondet_float(void) { return 1.0f; }
void out_res(uint64_t step, uint64_t op, uint64_t k, uint64_t ok, uint64_t val, uint64_t cnt, uint64_t n, uint64_t size)
{
    printf("r %llu %llu %llu %llu %llu %llu %llu %llu\n", (unsigned long long)step, (unsigned long long)op, (unsigned long long)k, (unsigned long long)ok,
           (unsigned long long)val, (unsigned long long)cnt, (unsigned long long)n, (unsigned long long)size);
}
void out_hdr(uint64_t n, int64_t ttl, int64_t tick) { printf("a %llu %lld %lld\n", (unsigned long long)n, (long long)ttl, (long long)tick); }
void out_ent(uint64_t i, uint64_t k, uint64_t v, int64_t d, uint64_t cnt, int64_t age, uint64_t o2)
{
    printf("e %llu %llu %llu %lld %llu %lld %llu\n", (unsigned long long)i, (unsigned long long)k, (unsigned long long)v, (long long)d, (unsigned long long)cnt,
           (long long)age, (unsigned long long)o2);
}
int diff_main(uint64_t seed);
int main(int argc, char** argv) { return diff_main(argc > 1 ? strtoull(argv[1], 0, 10) : 1); }
_Bool __vf_mutex_try_lock(void* m) { (void)m; return 1; }
