/* hooks of the relational (two-copy) queries: as cbmc_hooks.c, but the random draws of the first copy are recorded
 * and replayed for the second copy (or forced to differ, for the injectivity query) */
#include <stdint.h>
#include <stdlib.h>
uint64_t nondet_u64(void);
void  __vf_free(void* p) { free(p); }
void  __vf_assume(_Bool c) { __CPROVER_assume(c); }
void  __vf_unreachable(void) { __CPROVER_assert(0, "llvm unreachable reached"); }
void  __vf_assert(_Bool c, int id) { __CPROVER_assert(c, "property (dynamic id)"); }
void  __vf_check(_Bool c, int code) { __CPROVER_assert(c, "vstd contract (dynamic id)"); }
int64_t g_now;
int64_t __vf_now(void) { return g_now; }
void    __vf_set_now(int64_t t) { g_now = t; }
static uint64_t rec[8];
static int      nrec, mode, pos, distinct;
uint64_t h_draw[16];
void __vf_draw_mode(int m)
{
    mode = m;
    if (m == 0) nrec = 0;
    pos = 0;
    distinct = 0;
}
void __vf_draw_force_distinct(void) { mode = 1; pos = 0; distinct = 1; }
uint64_t __vf_random(uint64_t lo, uint64_t hi)
{
    uint64_t r;
    if (mode == 1 && !distinct && pos < nrec)
        r = rec[pos++];
    else
    {
        r = nondet_u64();
        __CPROVER_assume(lo <= r && r <= hi);
        if (distinct && pos < nrec)
            __CPROVER_assume(r != rec[pos++]);
        else if (mode == 0 && nrec < 8)
            rec[nrec++] = r;
    }
    return r;
}
static int lock_depth;
void __vf_mutex_lock(void* m) { __CPROVER_assert(lock_depth == 0, "mutex locked while already held (self-deadlock)"); lock_depth++; }
void __vf_mutex_unlock(void* m) { __CPROVER_assert(lock_depth == 1, "mutex unlocked while not held"); lock_depth--; }
void __vf_register_alloc(const void* p) {}
void __vf_access(const void* p, int w) {}
void __vf_lib_write(const void* p) {}
_Bool __vf_mutex_try_lock(void* m) { __vf_mutex_lock(m); return 1; }
