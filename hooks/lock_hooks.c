/* K3: lock-coverage monitor.  ir2c --instrument-access calls __vf_access(ptr, is_write) before every load and
 * store of the translated program (libcappuccino and vstd code alike).  After __vf_publish() the container object
 * and every heap object it allocated so far are "published"; inside a public call every access to a published
 * object must happen while the container's own mutex is held, unless it is a read of a location the harness declared
 * a construction-time constant (and no call ever writes such a location). */
#include <stdint.h>
#include <stdlib.h>
uint64_t nondet_u64(void);
#define MAXSH 8
static const void* shared[MAXSH];
static int         nshared;
static _Bool       published;
static const void* the_mutex;
static const char* fr_base[8];
static uint64_t    fr_len[8];
static int         nfr;
static int         lock_held;
static int         acquisitions;
static _Bool       in_call;
void __vf_register_alloc(const void* p)
{
    if (!published && nshared < MAXSH)
        shared[nshared++] = p; /* allocations made by the call itself (results, temporaries) are thread-local */
}
void __vf_publish(const void* obj)
{
    if (nshared < MAXSH)
        shared[nshared++] = obj;
    published = 1;
}
void __vf_freeze(const void* p, uint64_t len)
{
    fr_base[nfr] = p;
    fr_len[nfr]  = len;
    nfr++;
}
void __vf_expect_mutex(const void* m) { the_mutex = m; }
void __vf_call_begin(int id)
{
    in_call      = 1;
    acquisitions = 0;
}
void __vf_call_end(int id)
{
    in_call = 0;
    __CPROVER_assert(lock_held == 0, "K3c lock released at return");
}
void __vf_mutex_lock(void* m)
{
    __CPROVER_assert(!lock_held, "K3c no nested acquisition (self-deadlock)");
    __CPROVER_assert(!published || __CPROVER_same_object(m, the_mutex), "K3d the mutex locked is the container's own m_lock");
    lock_held = 1;
    acquisitions++;
    __CPROVER_assert(!in_call || acquisitions == 1, "K3c single critical section per public call");
}
_Bool nondet_bool(void);
/* try_lock may fail: another thread may hold the mutex, and the standard allows spurious failure */
_Bool __vf_mutex_try_lock(void* m)
{
    if (lock_held || !nondet_bool())
        return 0;
    __vf_mutex_lock(m);
    return 1;
}
void __vf_mutex_unlock(void* m)
{
    __CPROVER_assert(lock_held, "K3c unlock while held");
    lock_held = 0;
}
void __vf_access(const void* p, int w)
{
    if (!published || !in_call)
        return;
    _Bool sh = 0;
    for (int i = 0; i < MAXSH; i++)
        if (i < nshared && __CPROVER_same_object(p, shared[i]))
            sh = 1;
    if (!sh)
        return;
    _Bool frozen = 0;
    for (int i = 0; i < 8; i++)
        if (i < nfr && __CPROVER_same_object(p, fr_base[i]) && (const char*)p >= fr_base[i] && (const char*)p < fr_base[i] + fr_len[i])
            frozen = 1;
    if (w)
        __CPROVER_assert(!frozen, "K3b write to a location declared construction-time constant");
    if (w)
        __CPROVER_assert(lock_held, "K3a write to shared container state without holding its mutex");
    else
        __CPROVER_assert(lock_held || frozen, "K3a read of shared container state without holding its mutex");
}
/* a library write that an optimiser may fold away (vstd declares it explicitly, see list::splice) */
void __vf_lib_write(const void* p) { __vf_access(p, 1); }
/* the lock must really be taken by the locked methods (mutex<thread_safe::yes> forwards to std::mutex) */
int  __vf_acquisitions(void) { return acquisitions; }
void __vf_free(void* p) { free(p); }
void __vf_check(_Bool c, int code) { __CPROVER_assume(c); }
void __vf_assume(_Bool c) { __CPROVER_assume(c); }
void __vf_assert(_Bool c, int id) { __CPROVER_assert(c, "property (dynamic id)"); }
void __vf_unreachable(void) { __CPROVER_assert(0, "llvm unreachable reached"); }
int64_t g_now;
int64_t __vf_now(void) { return g_now; }
void    __vf_set_now(int64_t t) { g_now = t; }
uint64_t __vf_random(uint64_t lo, uint64_t hi)
{
    uint64_t r = nondet_u64();
    __CPROVER_assume(lo <= r && r <= hi);
    return r;
}
