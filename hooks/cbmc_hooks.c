/* Environment of a sequential CBMC query: allocation, clock, random source, mutex bookkeeping. */
#include <stdint.h>
#include <stdlib.h>
uint64_t nondet_u64(void);
void  __vf_free(void* p) { free(p); }
void  __vf_assume(_Bool c) { __CPROVER_assume(c); }
void  __vf_unreachable(void) { __CPROVER_assert(0, "llvm unreachable reached"); }
void  __vf_assert(_Bool c, int id) { __CPROVER_assert(c, "property (dynamic id)"); }
void  __vf_check(_Bool c, int code) { __CPROVER_assert(c, "vstd contract (dynamic id)"); }
int64_t g_now;
int64_t __vf_now(void) { return g_now; }
void    __vf_set_now(int64_t t) { g_now = t; }
/* the random source is a symbolic variable: every outcome in [lo,hi] */
uint64_t g_draws;
uint64_t h_draw[16]; /* the draws, in order, for trace extraction */
uint64_t __vf_random(uint64_t lo, uint64_t hi)
{
    uint64_t r = nondet_u64();
    __CPROVER_assume(lo <= r && r <= hi);
    h_draw[g_draws & 15] = r;
    g_draws++;
    return r;
}
/* sequential queries: the mutex must never be taken twice (self-deadlock) and must be released */
static int lock_depth;
void __vf_mutex_lock(void* m)
{
    __CPROVER_assert(lock_depth == 0, "mutex locked while already held (self-deadlock)");
    lock_depth++;
}
void __vf_mutex_unlock(void* m)
{
    __CPROVER_assert(lock_depth == 1, "mutex unlocked while not held");
    lock_depth--;
}
int  __vf_lock_depth(void) { return lock_depth; }
void __vf_register_alloc(const void* p) {}
void __vf_access(const void* p, int w) {}
void __vf_lib_write(const void* p) {}
_Bool __vf_mutex_try_lock(void* m) { __vf_mutex_lock(m); return 1; }
