#!/bin/bash
# Differential self-test of the vstd model against libstdc++ (see selftest/vstd_diff.cpp).  usage: tools/vstd_selftest.sh [seeds...]
set -e
V=$(cd "$(dirname "$0")/.." && pwd); D=$V/build/selftest; mkdir -p $D
STEPS=${STEPS:-3000}
g++ -std=c++17 -O1 -DVF_REAL -DDSTEPS=$STEPS $V/selftest/vstd_diff.cpp -o $D/real
clang++-14 -std=c++17 -nostdinc++ -fno-exceptions -fno-rtti -fno-builtin -O1 -fno-vectorize -fno-slp-vectorize -fno-unroll-loops \
  -mllvm -simplifycfg-sink-common=false -S -emit-llvm -I $V/vstd -I $V/harness -DDSTEPS=$STEPS -DVSTD_TAB_MAX=7 -DVSTD_LIST_MAX=7 \
  $V/selftest/vstd_diff.cpp -o $D/m.ll
python3 $V/ir2c/ir2c.py $D/m.ll -o $D/m.c
gcc -O1 -w $D/m.c $V/hooks/native_hooks.c $V/selftest/out3.c -o $D/model
rc=0
for s in ${@:-1 2 3 4 5 6 7 8}; do
  $D/real $s > $D/r.$s; $D/model $s > $D/m.$s || true
  if cmp -s $D/r.$s $D/m.$s; then echo "seed $s: identical ($(wc -l < $D/r.$s) lines)"; else echo "seed $s: DIFFERENT at line $(cmp $D/r.$s $D/m.$s | awk '{print $NF}')"; tail -2 $D/m.$s; rc=1; fi
done
exit $rc
