#!/bin/bash
# usage (inside `vp run --with-repo`): tools/seed_matrix.sh "<seed>:<cont>:<prop> <prop> ..." ...
# applies each seed to the snapshot repo $VP_RUN_REPO (never /repo), runs the listed checks against it, reverts.
R=${VP_RUN_REPO:?needs vp run --with-repo}
for spec in "$@"; do
  seed=${spec%%:*}; rest=${spec#*:}; cont=${rest%%:*}; props=${rest#*:}
  git -C $R apply /verif/seeded/$seed/patch.diff || { echo "=== $seed patch does not apply"; continue; }
  for p in $props; do
    echo "=== $seed vs $p"
    VERIF_REPO=$R VERIF_JOBS=${VERIF_JOBS:-8} python3 run_check.py $p --tier quick --only $cont 2>&1 | grep -a "VIOLATION\|INCONCLUSIVE\|TOOL-ERROR\|KNOWN\|exit [0-9]"
    echo "exit=${PIPESTATUS[0]}"
  done
  git -C $R checkout -- .
done
