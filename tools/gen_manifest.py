#!/usr/bin/env python3
"""Regenerate /verif/MANIFEST.json from the table below (kept in one place so that it stays valid)."""
import json, os
ROOT = os.path.dirname(os.path.dirname(os.path.abspath(__file__)))
props = {json.loads(l)['id']: json.loads(l) for l in open(os.path.join(ROOT, 'properties.jsonl'))}

K2 = 'K2: CBMC discharges one public call from an arbitrary state satisfying the representation invariant (base case: the constructor), so the clause holds after every history of any length at the checked capacities'
K1 = 'K1: CBMC explores every history of bounded length from the real constructor with symbolic arguments and clock; counterexamples are replayed on the real build before a VIOLATION is printed'
BASE = ('Trusted: clang -O1 IR of the real headers, the ir2c translator and the vstd contract model of libstdc++ (both validated on every run by a '
        'native differential against the real library), CBMC/MiniSat, the representation invariants in harness/c_*.hpp. Bounds: capacities 1-2 '
        '(quick) / 1-3 (thorough), uint64_t keys and values, clock and TTLs in [0,2^40) ticks, allocation never fails.')

CLAIMED = {
    'C01': ('Lookup results and the value frame (no key appears from nowhere, no value changes unwritten) as K2 clauses on all ten containers, all methods; ' + K1, 'K2 inductive step + K1 bounded histories (CBMC over ir2c translation of the real headers)'),
    'C02': ('capacity()/size()/empty() clauses after every call on all ten containers (TTL caches: live <= size <= live + expired-unreaped; ut_map/ut_set: size == live); the ut TTL==0 case is split out as a known-finding probe; ' + K1, 'K2 inductive step + K1 bounded histories (CBMC)'),
    'C03': ('retention clause (a resident key disappears only if erased, cleared, expired, or as the single victim of a full insert) on all ten containers, all methods; ' + K1, 'K2 inductive step + K1 bounded histories (CBMC)'),
    'C04': ('served => now < deadline with the symbolic clock free to sit exactly on the deadline, plus deadline upper-bound and frame clauses on writes (tlru, utlru, ut_map, ut_set); ' + K1, 'K2 inductive step with symbolic clock + K1 (CBMC)'),
    'C05': ('resident and now < deadline => served, deadline lower-bound/restart clauses on every write, update_ttl frame clause; ' + K1, 'K2 inductive step with symbolic clock + K1 (CBMC)'),
    'C06': ('K3: for every public method (single, range, observers, clean/age/clear/update_ttl) of all ten thread_safe::yes instantiations, from any invariant state, every load and store of published container state happens inside ONE critical section of the container\'s own mutex, which is released at return; together with the sequential refinement established by the other checks this gives atomicity at the lock acquisition. Counterexamples are replayed on the real build: ThreadSanitizer two-thread driver, or a nested schedule at lock granularity (interposed pthread_mutex_lock) whose outcome no sequential order explains. The step from single-critical-section to every schedule of any number of threads is the atomicity argument, stated, not enumerated', 'K3 lock-coverage monitor over instrumented accesses (CBMC) + real-build nested-schedule / TSan replay'),
    'C07': ('K3: every access to published container state by every public method (incl. size, empty, capacity, update_ttl) is made under the container\'s mutex or is a read of a location no call ever writes (lockset discipline => no two conflicting accesses unordered by happens-before, for any pair/set of methods and any number of threads). Counterexamples are confirmed by ThreadSanitizer on a two-thread driver of the real build', 'K3 lockset monitor over instrumented accesses (CBMC) + ThreadSanitizer replay'),
    'C08': ('all K2 step queries and K1 histories re-run with every vstd contract assertion (singular/stale/foreign iterator, end() dereference, vector index, optional access, rehash while iterators are stored, distribution bounds) and CBMC\'s standard checks (pointer validity, bounds, overflow, shifts) enabled; counterexamples are replayed on the real build under ASan+UBSan+_GLIBCXX_DEBUG', 'K2 inductive step + K1 with std-contract and CBMC standard checks + sanitizer replay'),
    'C09': ('the allow-mode table (resident-live / expired / absent x insert / update / insert_or_update), truthful return value, rejected calls leave value and deadline untouched, on all ten containers', 'K2 inductive step + K1 (CBMC)'),
    'C10': ('victim = last of the recency order when nothing has expired, and every method maintains the recency order (lru, tlru, utlru)', 'K2 inductive step + K1 (CBMC)'),
    'C11': ('count 1 on insert, +1 per update / non-peek hit, unchanged otherwise, reported count, minimal victim (lfu; lfuda with the aged counts)', 'K2 inductive step + K1 (CBMC)'),
    'C12': ('victim = first of the insertion order; updates and lookups keep the order; re-inserted keys queue at the tail (fifo)', 'K2 inductive step + K1 (CBMC)'),
    'C13': ('victim = most recently used; the written key becomes the most recently used (mru)', 'K2 inductive step + K1 (CBMC)'),
    'C14': ('at aging points exactly the entries idle for more than the tick get count*ratio (rounded down) and a restarted timer, the others are untouched; dynamically_age() returns the number aged (lfuda, symbolic tick and clock, ratio 1/2)', 'K2 inductive step with symbolic clock (CBMC)'),
    'C15': ('for every outcome of the draw exactly one prior resident is removed, never the new key, size stays at capacity (rr); injectivity of victim in the draw and reachability of every position', 'K2 inductive step with symbolic random draw + K1 (CBMC)'),
    'C16': ('a full insert with an expired resident removes an expired entry and keeps every live one (tlru, utlru incl. reconfigured TTL)', 'K2 inductive step with symbolic clock + K1 (CBMC)'),
    'C17': ('clean_expired_values(): no expired entry left, no live entry removed, return value = number removed, size = live; ut_map/ut_set: the same purge at the start of every insert/erase/lookup', 'K2 inductive step with symbolic clock + K1 (CBMC)'),
    'C18': ('K5: two copies of the real container installed from one symbolic state vector; one receives the range call (concrete length 1-2, duplicates, overflow of the capacity, expired keys all symbolic), the other the same elements as single calls at the same instant: counts, per-element results in input order, and the complete abstract states must agree (all ten containers, four range methods)', 'K5 two-copy relational step (CBMC) + real-build twin replay'),
    'C19': ('peeks, misses, rejected inserts and absent-key erases leave the complete abstract state (values, deadlines, counts, ages, both orders) unchanged, up to dropping already-expired entries in TTL containers', 'K2 inductive step + K1 (CBMC)'),
    'C20': ('after clear(): empty abstract state, configured TTL and capacity unchanged, representation invariant holds, i.e. the abstract state of a fresh container (utlru, ut_map)', 'K2 inductive step (CBMC)'),
}
NOT_YET = {
}


def main():
    checks = []
    for pid in sorted(props):
        if pid not in CLAIMED:
            continue
        text, tech = CLAIMED[pid]
        checks.append({
            'property_id': pid,
            'quick_cmd': 'python3 run_check.py %s --tier quick' % pid,
            'thorough_cmd': 'python3 run_check.py %s --tier thorough' % pid,
            'evidence_file': 'evidence/%s.json' % pid,
            'replay_cmd_template': 'python3 run_check.py %s --replay {path}' % pid,
            'engine': 'cbmc-ir2c',
            'level_claimed': {'category': 'model_checking', 'text': 'Bounded symbolic checking of the real code: ' + text + '. ' + K2 + '.',
                              'design_ref': 'DESIGN.md sections 2, 3, 6'},
            'level_note': BASE,
            'technique': tech,
        })
    na = [{'property_id': p, 'reason': NOT_YET.get(p, 'check not built yet in this session; will be claimed once its solver queries exist')}
          for p in sorted(props) if p not in CLAIMED]
    m = {
        'version': 1,
        'setup_cmd': 'python3 run_check.py --setup',
        'hooks': {'guard': 'CAPPUCCINO_VERIF_HOOKS',
                  'enable': 'no source hooks are needed: the harnesses read private state through -Dprivate=public at compile time of the verification build only; schedule/monitor points come from /verif/vstd (std::mutex model) and from ir2c access instrumentation',
                  'baseline_off_cmd': 'cmake -G Ninja -B /repo/_build -S /repo && cmake --build /repo/_build && ctest --test-dir /repo/_build -j8 --timeout 900',
                  'source_commits': [], 'add_only': True},
        'engines': [{'name': 'cbmc-ir2c', 'path': 'run_check.py', 'serves_properties': sorted(CLAIMED),
                     'kind_free_text': 'clang++-14 -> LLVM IR -> ir2c (own IR-to-C translator) -> CBMC 6.11 (SAT); vstd contract model of libstdc++; real-build replay (g++, libstdc++, virtual clock)'}],
        'checks': checks,
        'not_applicable': na,
        'notes': 'Known findings and repaired defects: known_findings.txt.  Verdicts of identical solver inputs are cached under build/ (keyed by the hash of the regenerated C file, hooks and command line; VERIF_NO_CACHE=1 disables); the encoding itself is regenerated from /repo on every run.',
    }
    json.dump(m, open(os.path.join(ROOT, 'MANIFEST.json'), 'w'), indent=1)
    print('claimed %d, not applicable %d' % (len(checks), len(na)))


if __name__ == '__main__':
    main()
