#!/bin/bash
# usage: try_seed.sh <seed-dir-name under /verif/seeded> <prop> [<prop>...]   (env ONLY=cont,cont  TIER=quick)
# applies seeded/<name>/patch.diff to /repo, runs the checks, always reverts.
set -u
name=$1; shift
d=/verif/seeded/$name
cd /repo || exit 2
git diff --quiet || { echo "/repo has local changes"; exit 2; }
git apply "$d/patch.diff" || { echo "patch does not apply"; exit 2; }
trap 'git -C /repo checkout -- . ' EXIT
cd /verif
for p in "$@"; do
  echo "=== $name vs $p"
  if [ -n "${ONLY:-}" ]; then
    python3 run_check.py $p --tier ${TIER:-quick} --only $ONLY 2>&1 | grep -v "^\s*\[pass\]\|p99\|^tools ok"
  else
    python3 run_check.py $p --tier ${TIER:-quick} 2>&1 | grep -v "^\s*\[pass\]\|p99\|^tools ok"
  fi
  echo "exit=${PIPESTATUS[0]}"
done
