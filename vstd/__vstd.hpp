// vstd: a small contract model of the parts of the C++ standard library that
// libcappuccino uses.  PROTOTYPE (design probe).
#pragma once
#include <stddef.h>
#include <stdint.h>

extern "C" {
void*    __vf_alloc(size_t bytes);
void     __vf_free(void* p);
void     __vf_check(bool cond, int code); // assertion: library contract violated by caller
void     __vf_assume(bool cond);          // cut path (model bound exceeded)
int64_t  __vf_now(void);                  // steady clock reading (ticks)
uint64_t __vf_random(uint64_t lo, uint64_t hi);
void     __vf_mutex_lock(void* m);
void     __vf_mutex_unlock(void* m);
bool     __vf_mutex_try_lock(void* m); // K3: may fail (another thread holds it / spurious failure); elsewhere: succeeds
void     __vf_lib_write(const void* p);    // a write the library performs that the optimiser may fold away: told to the access monitor (K3), a no-op elsewhere
}

#ifndef VSTD_TAB_MAX
#define VSTD_TAB_MAX 6
#endif
#ifndef VSTD_LIST_MAX
#define VSTD_LIST_MAX 6
#endif

enum __vf_code
{
    VF_LIST_DEREF_END = 1,
    VF_LIST_FOREIGN_ITER,
    VF_LIST_DEAD_ITER,
    VF_LIST_INC_END,
    VF_LIST_DEC_BEGIN,
    VF_LIST_BACK_EMPTY,
    VF_LIST_GREW, // a list constructed with a fixed number of nodes (the caches' slot lists) needs one more node
    VF_UMAP_DEAD_ITER,
    VF_UMAP_STALE_ITER,
    VF_UMAP_DEREF_END,
    VF_MMAP_DEAD_ITER,
    VF_MMAP_DEREF_END,
    VF_MAP_DEAD_ITER,
    VF_MAP_DEREF_END,
    VF_VEC_OOB,
    VF_OPT_EMPTY,
    VF_RANDOM_RANGE,
    VF_MUTEX,
};

// Declared only: ir2c synthesises one typed allocator per instantiation (T* f(n) { return malloc(n * sizeof(T)); })
#ifdef VSTD_NATIVE
extern "C" void* malloc(size_t);
template<class T>
T* __vf_alloc_array(size_t n)
{
    return static_cast<T*>(malloc(n * sizeof(T)));
}
#else
template<class T>
T* __vf_alloc_array(size_t n);
#endif

inline void* operator new(size_t, void* p) noexcept
{
    return p;
}

namespace std
{
using ::size_t;
using ::ptrdiff_t;
using ::int64_t;
using ::uint64_t;
using ::uint32_t;
using ::int32_t;
using ::uint8_t;

// ---------------------------------------------------------------- utility
template<class T>
struct remove_reference
{
    using type = T;
};
template<class T>
struct remove_reference<T&>
{
    using type = T;
};
template<class T>
struct remove_reference<T&&>
{
    using type = T;
};
template<class T>
using remove_reference_t = typename remove_reference<T>::type;
template<class T>
struct remove_cv
{
    using type = T;
};
template<class T>
struct remove_cv<const T>
{
    using type = T;
};
template<class T>
struct decay
{
    using type = typename remove_cv<remove_reference_t<T>>::type;
};
template<class T>
using decay_t = typename decay<T>::type;

template<class T>
constexpr remove_reference_t<T>&& move(T&& t) noexcept
{
    return static_cast<remove_reference_t<T>&&>(t);
}
template<class T>
constexpr T&& forward(remove_reference_t<T>& t) noexcept
{
    return static_cast<T&&>(t);
}
template<class T>
constexpr T&& forward(remove_reference_t<T>&& t) noexcept
{
    return static_cast<T&&>(t);
}
template<class T>
void swap(T& a, T& b)
{
    T t(std::move(a));
    a = std::move(b);
    b = std::move(t);
}

template<class A, class B>
struct pair
{
    A first;
    B second;
    pair() : first(), second() {}
    pair(const A& a, const B& b) : first(a), second(b) {}
    template<class U1, class U2>
    pair(U1&& a, U2&& b) : first(std::forward<U1>(a)), second(std::forward<U2>(b))
    {
    }
};
template<class A, class B>
pair<decay_t<A>, decay_t<B>> make_pair(A&& a, B&& b)
{
    return pair<decay_t<A>, decay_t<B>>(std::forward<A>(a), std::forward<B>(b));
}

// ---------------------------------------------------------------- string (declaration only use)
class string
{
public:
    string() {}
    string(const char*) {}
};

// ---------------------------------------------------------------- optional
struct nullopt_t
{
    explicit constexpr nullopt_t(int) {}
};
inline constexpr nullopt_t nullopt{0};

template<class T>
class optional
{
public:
    optional() : m_val(), m_has(false) {}
    optional(nullopt_t) : m_val(), m_has(false) {}
    optional(const T& v) : m_val(v), m_has(true) {}
    optional(T&& v) : m_val(std::move(v)), m_has(true) {}
    optional& operator=(nullopt_t)
    {
        m_has = false;
        m_val = T();
        return *this;
    }
    optional& operator=(const T& v)
    {
        m_val = v;
        m_has = true;
        return *this;
    }
    bool     has_value() const { return m_has; }
    explicit operator bool() const { return m_has; }
    T        value_or(const T& d) const { return m_has ? m_val : d; }
    void     reset()
    {
        m_has = false;
        m_val = T();
    }
    template<class... Args>
    T& emplace(Args&&... args)
    {
        m_val = T(std::forward<Args>(args)...);
        m_has = true;
        return m_val;
    }
    T* operator->()
    {
        __vf_check(m_has, VF_OPT_EMPTY);
        return &m_val;
    }
    const T* operator->() const
    {
        __vf_check(m_has, VF_OPT_EMPTY);
        return &m_val;
    }
    T&       value()
    {
        __vf_check(m_has, VF_OPT_EMPTY);
        return m_val;
    }
    const T& value() const
    {
        __vf_check(m_has, VF_OPT_EMPTY);
        return m_val;
    }
    T& operator*()
    {
        __vf_check(m_has, VF_OPT_EMPTY);
        return m_val;
    }
    const T& operator*() const
    {
        __vf_check(m_has, VF_OPT_EMPTY);
        return m_val;
    }

private:
    T    m_val;
    bool m_has;
};

// ---------------------------------------------------------------- vector
template<class T>
class vector
{
public:
    using iterator       = T*;
    using const_iterator = const T*;
    vector() : m_data(nullptr), m_size(0), m_cap(0) {}
    explicit vector(size_t n) : m_data(nullptr), m_size(0), m_cap(0)
    {
        grow(n);
        for (size_t i = 0; i < n; ++i)
        {
            new (&m_data[i]) T();
        }
        m_size = n;
    }
    vector(const vector&) = delete;
    vector& operator=(const vector&) = delete;
    vector(vector&& o) : m_data(o.m_data), m_size(o.m_size), m_cap(o.m_cap)
    {
        o.m_data = nullptr;
        o.m_size = 0;
        o.m_cap  = 0;
    }
    ~vector()
    {
        for (size_t i = 0; i < m_size; ++i)
        {
            m_data[i].~T();
        }
        if (m_data)
            __vf_free(m_data);
    }
    T& operator[](size_t i)
    {
        __vf_check(i < m_size, VF_VEC_OOB);
        return m_data[i];
    }
    const T& operator[](size_t i) const
    {
        __vf_check(i < m_size, VF_VEC_OOB);
        return m_data[i];
    }
    T& at(size_t i)
    {
        __vf_check(i < m_size, VF_VEC_OOB);
        return m_data[i];
    }
    T& back()
    {
        __vf_check(m_size != 0, VF_VEC_OOB);
        return m_data[m_size - 1];
    }
    const T& back() const
    {
        __vf_check(m_size != 0, VF_VEC_OOB);
        return m_data[m_size - 1];
    }
    T& front()
    {
        __vf_check(m_size != 0, VF_VEC_OOB);
        return m_data[0];
    }
    const T& front() const
    {
        __vf_check(m_size != 0, VF_VEC_OOB);
        return m_data[0];
    }
    T*       data() { return m_data; }
    const T* data() const { return m_data; }
    void     pop_back()
    {
        __vf_check(m_size != 0, VF_VEC_OOB);
        m_data[m_size - 1].~T();
        --m_size;
    }
    void clear()
    {
        for (size_t i = 0; i < m_size; ++i)
            m_data[i].~T();
        m_size = 0;
    }
    size_t size() const { return m_size; }
    size_t capacity() const { return m_cap; }
    bool   empty() const { return m_size == 0; }
    void   reserve(size_t n)
    {
        if (n > m_cap)
            grow(n);
    }
    template<class... Args>
    T& emplace_back(Args&&... args)
    {
        if (m_size == m_cap)
            grow(m_cap == 0 ? 1 : 2 * m_cap);
        new (&m_data[m_size]) T(std::forward<Args>(args)...);
        return m_data[m_size++];
    }
    void push_back(const T& v) { emplace_back(v); }
    T*       begin() { return m_data; }
    T*       end() { return m_data + m_size; }
    const T* begin() const { return m_data; }
    const T* end() const { return m_data + m_size; }

private:
    void grow(size_t n)
    {
        T* nd = __vf_alloc_array<T>(n);
        for (size_t i = 0; i < m_size; ++i)
        {
            new (&nd[i]) T(std::move(m_data[i]));
            m_data[i].~T();
        }
        if (m_data)
            __vf_free(m_data);
        m_data = nd;
        m_cap  = n;
    }
    T*     m_data;
    size_t m_size;
    size_t m_cap;
};

template<class C>
auto begin(C& c) -> decltype(c.begin())
{
    return c.begin();
}
template<class C>
auto end(C& c) -> decltype(c.end())
{
    return c.end();
}
template<class C>
auto begin(const C& c) -> decltype(c.begin())
{
    return c.begin();
}
template<class C>
auto end(const C& c) -> decltype(c.end())
{
    return c.end();
}
template<class C>
auto size(const C& c) -> decltype(c.size())
{
    return c.size();
}
template<class T, size_t N>
T* begin(T (&a)[N])
{
    return a;
}
template<class T, size_t N>
T* end(T (&a)[N])
{
    return a + N;
}
template<class T, size_t N>
size_t size(T (&)[N])
{
    return N;
}

// ---------------------------------------------------------------- list
// Index-linked nodes in one typed pool: pool[0] is the sentinel.  Iterators are (list, index).
// reverse iterator over any bidirectional model iterator (rbegin() / rend())
template<class It>
class reverse_iterator
{
public:
    reverse_iterator() : m_it() {}
    explicit reverse_iterator(It it) : m_it(it) {}
    It   base() const { return m_it; }
    auto operator*() const -> decltype(*It())
    {
        It t = m_it;
        --t;
        return *t;
    }
    auto operator->() const -> decltype(&*It()) { return &**this; }
    reverse_iterator& operator++()
    {
        --m_it;
        return *this;
    }
    reverse_iterator& operator--()
    {
        ++m_it;
        return *this;
    }
    bool operator==(const reverse_iterator& o) const { return m_it == o.m_it; }
    bool operator!=(const reverse_iterator& o) const { return !(m_it == o.m_it); }

private:
    It m_it;
};
template<class T>
struct __list_node
{
    size_t next;
    size_t prev;
    bool   live;
    T      value;
};

template<class T>
class list
{
    using node = __list_node<T>;

public:
    class iterator
    {
    public:
        iterator() : l(nullptr), i(0) {}
        iterator(list* l_, size_t i_) : l(l_), i(i_) {}
        T& operator*() const
        {
            check_deref();
            return l->m_pool[i].value;
        }
        T* operator->() const
        {
            check_deref();
            return &l->m_pool[i].value;
        }
        iterator& operator++()
        {
            check_live();
            __vf_check(i != 0, VF_LIST_INC_END);
            i = l->m_pool[i].next;
            return *this;
        }
        iterator& operator--()
        {
            check_live();
            __vf_check(l->m_pool[i].prev != 0, VF_LIST_DEC_BEGIN);
            i = l->m_pool[i].prev;
            return *this;
        }
        bool operator==(const iterator& o) const { return i == o.i && l == o.l; }
        bool operator!=(const iterator& o) const { return !(*this == o); }

        void check_live() const
        {
            __vf_check(l != nullptr, VF_LIST_DEAD_ITER);
            __vf_check(i < l->m_pool_n, VF_LIST_DEAD_ITER);
            __vf_check(i == 0 || l->m_pool[i].live, VF_LIST_DEAD_ITER);
        }
        void check_deref() const
        {
            check_live();
            __vf_check(i != 0, VF_LIST_DEREF_END);
        }
        list*  l;
        size_t i;
    };

    list() : m_size(0), m_pool(nullptr), m_pool_n(0), m_fixed(false) { init(VSTD_LIST_MAX); }
    explicit list(size_t n) : m_size(0), m_pool(nullptr), m_pool_n(0), m_fixed(false)
    {
        init(n);
        for (size_t k = 0; k < n; ++k)
        {
            emplace_back();
        }
        m_fixed = true; // the pool holds exactly these n nodes: growth is reported, not cut away (see take_free)
    }
    list(const list&) = delete;
    list& operator=(const list&) = delete;
    ~list()
    {
        clear();
        __vf_free(m_pool);
    }

    iterator begin() { return iterator(this, m_pool[0].next); }
    iterator end() { return iterator(this, 0); }
    // const access (the model has one iterator type; const-correctness of the library is checked by the real compiler)
    iterator begin() const { return iterator(const_cast<list*>(this), m_pool[0].next); }
    iterator end() const { return iterator(const_cast<list*>(this), 0); }
    using const_iterator = iterator;
    iterator cbegin() const { return begin(); }
    iterator cend() const { return end(); }
    std::reverse_iterator<iterator> rbegin() const { return std::reverse_iterator<iterator>(end()); }
    std::reverse_iterator<iterator> rend() const { return std::reverse_iterator<iterator>(begin()); }
    const T& back() const
    {
        __vf_check(m_size != 0, VF_LIST_BACK_EMPTY);
        return m_pool[m_pool[0].prev].value;
    }
    const T& front() const
    {
        __vf_check(m_size != 0, VF_LIST_BACK_EMPTY);
        return m_pool[m_pool[0].next].value;
    }
    size_t   size() const { return m_size; }
    bool     empty() const { return m_size == 0; }
    T&       back()
    {
        __vf_check(m_size != 0, VF_LIST_BACK_EMPTY);
        return m_pool[m_pool[0].prev].value;
    }
    T& front()
    {
        __vf_check(m_size != 0, VF_LIST_BACK_EMPTY);
        return m_pool[m_pool[0].next].value;
    }

    template<class... Args>
    iterator emplace(iterator pos, Args&&... args)
    {
        check_mine(pos);
        size_t n = take_free();
        new (&m_pool[n].value) T(std::forward<Args>(args)...);
        m_pool[n].live = true;
        hook(n, pos.i);
        ++m_size;
        return iterator(this, n);
    }
    template<class... Args>
    T& emplace_back(Args&&... args)
    {
        return *emplace(end(), std::forward<Args>(args)...);
    }
    template<class... Args>
    T& emplace_front(Args&&... args)
    {
        return *emplace(begin(), std::forward<Args>(args)...);
    }
    void     push_back(const T& v) { emplace(end(), v); }
    void     push_back(T&& v) { emplace(end(), std::move(v)); }
    void     push_front(const T& v) { emplace(begin(), v); }
    void     push_front(T&& v) { emplace(begin(), std::move(v)); }
    iterator insert(iterator pos, const T& v) { return emplace(pos, v); }
    void     pop_back()
    {
        __vf_check(m_size != 0, VF_LIST_BACK_EMPTY);
        erase(iterator(this, m_pool[0].prev));
    }
    void pop_front()
    {
        __vf_check(m_size != 0, VF_LIST_BACK_EMPTY);
        erase(begin());
    }
    iterator erase(iterator it)
    {
        check_mine(it);
        __vf_check(it.i != 0, VF_LIST_DEREF_END);
        size_t n    = it.i;
        size_t next = m_pool[n].next;
        unhook(n);
        m_pool[n].value.~T();
        m_pool[n].live = false;
        --m_size;
        return iterator(this, next);
    }
    iterator erase(iterator first, iterator last)
    {
        while (first != last)
        {
            first = erase(first);
        }
        return last;
    }
    void clear() { erase(begin(), end()); }

    // splice a single element of this same list (the only form libcappuccino uses).
    void splice(iterator pos, list& other, iterator it)
    {
        __vf_check(&other == this, VF_LIST_FOREIGN_ITER);
        check_mine(pos);
        check_mine(it);
        __vf_check(it.i != 0, VF_LIST_DEREF_END);
        if (pos.i == it.i || pos.i == m_pool[it.i].next)
            return;
        // libstdc++ runs _M_inc_size(1) on *this and _M_dec_size(1) on the source even when both are the same list, and by
        // [res.on.data.races] a non-const member function may modify the object: the size field is WRITTEN here (the
        // value is restored).  An optimiser folds the two stores away, which is why the write is declared to the access
        // monitor explicitly instead of being performed.
        __vf_lib_write(&m_size);
        unhook(it.i);
        hook(it.i, pos.i);
    }
    // range form, same list: [first, last) moves before pos, order preserved; pos must not lie inside the range
    void splice(iterator pos, list& other, iterator first, iterator last)
    {
        __vf_check(&other == this, VF_LIST_FOREIGN_ITER);
        check_mine(pos);
        __vf_check(first.l == this && last.l == this, VF_LIST_FOREIGN_ITER);
        if (first.i == last.i)
            return;
        __vf_lib_write(&m_size);
        for (size_t n = first.i; n != last.i;)
        {
            __vf_check(n != 0, VF_LIST_DEREF_END);
            __vf_check(n != pos.i, VF_LIST_FOREIGN_ITER); // pos inside [first, last): undefined
            size_t nx = m_pool[n].next;
            if (pos.i != nx)
            {
                unhook(n);
                hook(n, pos.i);
            }
            n = nx;
        }
    }

private:
    void init(size_t n)
    {
        m_pool_n = n + 1;
        m_pool   = __vf_alloc_array<node>(m_pool_n);
        for (size_t k = 0; k < m_pool_n; ++k)
        {
            m_pool[k].live = false;
            m_pool[k].next = 0;
            m_pool[k].prev = 0;
        }
    }
    size_t take_free()
    {
        for (size_t k = 1; k < m_pool_n; ++k)
        {
            if (!m_pool[k].live)
                return k;
        }
        // No free node.  A list built by list(n) is one of the caches' slot lists, whose node count IS the capacity: needing
        // another node means the list grows, which the model must not hide by cutting the path - it is reported as a
        // contract failure and then decided on the real build.  For lists that legitimately grow (default-constructed) the
        // pool size is a stated model bound.
        __vf_check(!m_fixed, VF_LIST_GREW);
        __vf_assume(false);
        return 1;
    }
    void check_mine(const iterator& it) const
    {
        it.check_live();
        __vf_check(it.l == this, VF_LIST_FOREIGN_ITER);
    }
    void hook(size_t n, size_t before)
    {
        size_t p       = m_pool[before].prev;
        m_pool[n].next = before;
        m_pool[n].prev = p;
        m_pool[p].next = n;
        m_pool[before].prev = n;
    }
    void unhook(size_t n)
    {
        size_t p = m_pool[n].prev, x = m_pool[n].next;
        m_pool[p].next = x;
        m_pool[x].prev = p;
    }

public: // model state, public so that verification harnesses can inspect / construct it
    size_t m_size;
    node*  m_pool;
    size_t m_pool_n;
    bool   m_fixed;
};

template<class It>
It prev(It it)
{
    --it;
    return it;
}
template<class It>
It next(It it)
{
    ++it;
    return it;
}
template<class It>
It prev(It it, long n)
{
    for (; n > 0; --n) --it;
    for (; n < 0; ++n) ++it;
    return it;
}
template<class It>
It next(It it, long n)
{
    for (; n > 0; --n) ++it;
    for (; n < 0; ++n) --it;
    return it;
}
template<class T>
constexpr const T& min(const T& a, const T& b)
{
    return (b < a) ? b : a;
}
template<class T>
constexpr const T& max(const T& a, const T& b)
{
    return (a < b) ? b : a;
}
template<class It, class P>
It find_if(It first, It last, P pred)
{
    while (first != last && !pred(*first))
        ++first;
    return first;
}
template<class It, class P>
bool any_of(It first, It last, P pred)
{
    return find_if(first, last, pred) != last;
}
template<class It, class P>
bool all_of(It first, It last, P pred)
{
    while (first != last)
    {
        if (!pred(*first))
            return false;
        ++first;
    }
    return true;
}
template<class It, class P>
bool none_of(It first, It last, P pred)
{
    return find_if(first, last, pred) == last;
}
template<class T, class U = T>
T exchange(T& obj, U&& v)
{
    T old = std::move(obj);
    obj   = std::forward<U>(v);
    return old;
}
template<class It>
size_t distance(It first, It last)
{
    size_t n = 0;
    while (first != last)
    {
        ++first;
        ++n;
    }
    return n;
}
template<class It>
void advance(It& it, long n)
{
    while (n > 0)
    {
        ++it;
        --n;
    }
    while (n < 0)
    {
        --it;
        ++n;
    }
}
template<class It, class V>
void iota(It first, It last, V v)
{
    while (first != last)
    {
        *first = v;
        ++first;
        ++v;
    }
}

// ---------------------------------------------------------------- unordered_map / map / multimap
// Entries live in a typed pool; iterators are (container, index) and stay valid until their entry is erased.
static constexpr size_t __vf_npos = ~static_cast<size_t>(0);

template<class K, class V>
struct __tab_node
{
    pair<const K, V> kv;
    size_t           next; // ordered containers: in key order
    size_t           prev;
    bool             live;
};

template<class K, class V>
class unordered_map
{
    using node = __tab_node<K, V>;

public:
    class iterator
    {
    public:
        iterator() : m(nullptr), i(__vf_npos) {}
        iterator(unordered_map* m_, size_t i_) : m(m_), i(i_) {}
        pair<const K, V>& operator*() const
        {
            check_live();
            return m->m_pool[i].kv;
        }
        pair<const K, V>* operator->() const
        {
            check_live();
            return &m->m_pool[i].kv;
        }
        bool operator==(const iterator& o) const { return i == o.i && m == o.m; }
        bool operator!=(const iterator& o) const { return !(*this == o); }
        // iteration order: pool order (unspecified by the standard, any order is a legal one)
        iterator& operator++()
        {
            check_live();
            size_t n = i + 1;
            while (n < m->m_pool_n && !m->m_pool[n].live)
                ++n;
            i = (n < m->m_pool_n) ? n : __vf_npos;
            return *this;
        }
        void check_live() const
        {
            __vf_check(m != nullptr, VF_UMAP_DEREF_END);
            __vf_check(i != __vf_npos, VF_UMAP_DEREF_END);
            __vf_check(i < m->m_pool_n && m->m_pool[i].live, VF_UMAP_DEAD_ITER);
        }
        unordered_map* m;
        size_t         i;
    };

    unordered_map() : m_pool(nullptr), m_pool_n(VSTD_TAB_MAX), m_size(0), m_reserved(0), m_mlf(1.0f), m_buckets(0) { init_pool(); }
    // bucket-count constructor: at least n buckets; an insertion is rehash-free while size <= bucket_count * max_load_factor
    explicit unordered_map(size_t n) : m_pool(nullptr), m_pool_n(VSTD_TAB_MAX), m_size(0), m_reserved(0), m_mlf(1.0f), m_buckets(n)
    {
        init_pool();
    }
    void init_pool()
    {
        m_pool = __vf_alloc_array<node>(VSTD_TAB_MAX);
        for (size_t i = 0; i < VSTD_TAB_MAX; ++i)
        {
            m_pool[i].live = false;
        }
    }
    // true if holding n elements is guaranteed not to need a rehash: covered by the last reserve(), or by the known lower
    // bound of the bucket count under the current load factor
    bool guaranteed(size_t n) const
    {
        return n <= m_reserved || (m_buckets != 0 && static_cast<float>(n) <= static_cast<float>(m_buckets) * m_mlf);
    }
    size_t bucket_count() const { return m_buckets != 0 ? m_buckets : 1; }
    void   rehash(size_t n)
    {
        if (n > m_buckets)
        {
            __vf_check(m_size == 0, VF_UMAP_STALE_ITER);
            m_buckets = n;
        }
    }
    unordered_map(const unordered_map&) = delete;
    unordered_map& operator=(const unordered_map&) = delete;
    ~unordered_map()
    {
        clear();
        if (m_pool)
            __vf_free(m_pool);
    }

    float max_load_factor() const { return m_mlf; }
    void  max_load_factor(float z)
    {
        m_mlf      = z;
        m_reserved = 0; // any earlier reserve() guarantee is void under a new load factor (a bucket-count bound stays)
    }
    void reserve(size_t n)
    {
        if (n > m_reserved)
        {
            // reserve() beyond the current guarantee rehashes, which invalidates every iterator.
            // libcappuccino keeps an iterator to every entry, so this is only legal while empty.
            __vf_check(m_size == 0, VF_UMAP_STALE_ITER);
            m_reserved = n;
        }
        ensure_pool(n + 1);
    }
    size_t   size() const { return m_size; }
    bool     empty() const { return m_size == 0; }
    iterator end() { return iterator(this, __vf_npos); }
    iterator begin()
    {
        for (size_t i = 0; i < m_pool_n; ++i)
            if (m_pool[i].live)
                return iterator(this, i);
        return end();
    }
    iterator find(const K& k)
    {
        for (size_t i = 0; i < m_pool_n; ++i)
        {
            if (m_pool[i].live && m_pool[i].kv.first == k)
                return iterator(this, i);
        }
        return end();
    }
    size_t   count(const K& k) { return find(k) != end() ? 1 : 0; }
    iterator end() const { return iterator(const_cast<unordered_map*>(this), __vf_npos); }
    iterator begin() const { return const_cast<unordered_map*>(this)->begin(); }
    using const_iterator = iterator;
    iterator cbegin() const { return begin(); }
    iterator cend() const { return end(); }
    iterator find(const K& k) const { return const_cast<unordered_map*>(this)->find(k); }
    size_t   count(const K& k) const { return const_cast<unordered_map*>(this)->count(k); }
    V&     at(const K& k)
    {
        iterator f = find(k);
        __vf_check(f != end(), VF_UMAP_DEREF_END);
        return f->second;
    }
    V& operator[](const K& k)
    {
        iterator f = find(k);
        if (f != end())
            return f->second;
        return emplace(k).first->second;
    }
    pair<iterator, bool> insert(const pair<const K, V>& kv) { return emplace(kv.first, kv.second); }
    pair<iterator, bool> insert(const pair<K, V>& kv) { return emplace(kv.first, kv.second); }
    size_t               erase(const K& k)
    {
        iterator f = find(k);
        if (f == end())
            return 0;
        erase(f);
        return 1;
    }
    template<class KK, class... Args>
    pair<iterator, bool> emplace(KK&& k, Args&&... args)
    {
        iterator f = find(k);
        if (f != end())
            return pair<iterator, bool>(f, false);
        // No reserve() guarantee covers this insertion => the table may rehash, which invalidates
        // every iterator.  libcappuccino keeps an iterator to every entry, so that is a contract
        // violation as soon as one entry exists.
        __vf_check(m_size == 0 || guaranteed(m_size + 1), VF_UMAP_STALE_ITER);
        ensure_pool(m_size + 1);
        size_t n = __vf_npos;
        for (size_t i = 0; i < m_pool_n; ++i)
        {
            if (!m_pool[i].live)
            {
                n = i;
                break;
            }
        }
        if (n == __vf_npos)
        {
            __vf_assume(false);
            n = 0;
        }
        new (&m_pool[n].kv) pair<const K, V>(std::forward<KK>(k), V(std::forward<Args>(args)...));
        m_pool[n].live = true;
        ++m_size;
        return pair<iterator, bool>(iterator(this, n), true);
    }
    // try_emplace: like emplace, and guaranteed not to consume the arguments when the key exists (the model's emplace looks
    // the key up before constructing anything, so both coincide)
    template<class KK, class... Args>
    pair<iterator, bool> try_emplace(KK&& k, Args&&... args)
    {
        return emplace(std::forward<KK>(k), std::forward<Args>(args)...);
    }
    template<class KK, class M>
    pair<iterator, bool> insert_or_assign(KK&& k, M&& v)
    {
        iterator f = find(k);
        if (f != end())
        {
            f->second = std::forward<M>(v);
            return pair<iterator, bool>(f, false);
        }
        return emplace(std::forward<KK>(k), std::forward<M>(v));
    }
    void erase(iterator it)
    {
        it.check_live();
        __vf_check(it.m == this, VF_UMAP_DEAD_ITER);
        m_pool[it.i].kv.~pair<const K, V>();
        m_pool[it.i].live = false;
        --m_size;
    }
    void clear()
    {
        for (size_t i = 0; i < m_pool_n; ++i)
        {
            if (m_pool[i].live)
            {
                m_pool[i].kv.~pair<const K, V>();
                m_pool[i].live = false;
            }
        }
        m_size = 0;
    }

private:
    void ensure_pool(size_t n)
    {
        __vf_assume(n <= VSTD_TAB_MAX); // model bound: table pools have a fixed size
    }

public:
    node*  m_pool;
    size_t m_pool_n;
    size_t m_size;
    size_t m_reserved;
    float  m_mlf;
    size_t m_buckets; // known lower bound of the bucket count (0: none given)
};

// ordered: multimap (Multi = true) and map (Multi = false)
template<class K, class V, bool Multi>
class __ordered_tab
{
    using node = __tab_node<K, V>;

public:
    class iterator
    {
    public:
        iterator() : m(nullptr), i(__vf_npos) {}
        iterator(__ordered_tab* m_, size_t i_) : m(m_), i(i_) {}
        pair<const K, V>& operator*() const
        {
            check_live();
            return m->m_pool[i].kv;
        }
        pair<const K, V>* operator->() const
        {
            check_live();
            return &m->m_pool[i].kv;
        }
        bool operator==(const iterator& o) const { return i == o.i && m == o.m; }
        bool operator!=(const iterator& o) const { return !(*this == o); }
        iterator& operator++()
        {
            check_live();
            i = m->m_pool[i].next;
            return *this;
        }
        iterator operator++(int)
        {
            iterator t = *this;
            ++*this;
            return t;
        }
        iterator& operator--()
        {
            __vf_check(m != nullptr, VF_MMAP_DEREF_END);
            if (i == __vf_npos)
            {
                __vf_check(m->m_last != __vf_npos, VF_MMAP_DEREF_END); // --end() of an empty container
                i = m->m_last;
            }
            else
            {
                check_live();
                __vf_check(m->m_pool[i].prev != __vf_npos, VF_MMAP_DEREF_END); // --begin()
                i = m->m_pool[i].prev;
            }
            return *this;
        }
        iterator operator--(int)
        {
            iterator t = *this;
            --*this;
            return t;
        }
        void check_live() const
        {
            __vf_check(m != nullptr, VF_MMAP_DEREF_END);
            __vf_check(i != __vf_npos, VF_MMAP_DEREF_END);
            __vf_check(i < m->m_pool_n && m->m_pool[i].live, VF_MMAP_DEAD_ITER);
        }
        __ordered_tab* m;
        size_t         i;
    };

    __ordered_tab() : m_first(__vf_npos), m_last(__vf_npos), m_pool(nullptr), m_pool_n(VSTD_TAB_MAX), m_size(0)
    {
        m_pool = __vf_alloc_array<node>(VSTD_TAB_MAX);
        for (size_t i = 0; i < VSTD_TAB_MAX; ++i)
        {
            m_pool[i].live = false;
        }
    }
    __ordered_tab(const __ordered_tab&) = delete;
    __ordered_tab& operator=(const __ordered_tab&) = delete;
    ~__ordered_tab()
    {
        clear();
        if (m_pool)
            __vf_free(m_pool);
    }
    size_t   size() const { return m_size; }
    bool     empty() const { return m_size == 0; }
    iterator begin() { return iterator(this, m_first); }
    iterator end() { return iterator(this, __vf_npos); }
    iterator find(const K& k)
    {
        for (size_t n = m_first; n != __vf_npos; n = m_pool[n].next)
        {
            if (!(m_pool[n].kv.first < k) && !(k < m_pool[n].kv.first))
                return iterator(this, n);
        }
        return end();
    }

    iterator begin() const { return iterator(const_cast<__ordered_tab*>(this), m_first); }
    iterator end() const { return iterator(const_cast<__ordered_tab*>(this), __vf_npos); }
    using const_iterator = iterator;
    iterator cbegin() const { return begin(); }
    iterator cend() const { return end(); }
    std::reverse_iterator<iterator> rbegin() const { return std::reverse_iterator<iterator>(end()); }
    std::reverse_iterator<iterator> rend() const { return std::reverse_iterator<iterator>(begin()); }
    iterator find(const K& k) const { return const_cast<__ordered_tab*>(this)->find(k); }
    size_t   count(const K& k) const { return const_cast<__ordered_tab*>(this)->count(k); }
    size_t count(const K& k)
    {
        size_t c = 0;
        for (size_t n = m_first; n != __vf_npos; n = m_pool[n].next)
            if (!(m_pool[n].kv.first < k) && !(k < m_pool[n].kv.first))
                ++c;
        return c;
    }
    iterator lower_bound(const K& k)
    {
        for (size_t n = m_first; n != __vf_npos; n = m_pool[n].next)
            if (!(m_pool[n].kv.first < k))
                return iterator(this, n);
        return end();
    }
    iterator upper_bound(const K& k)
    {
        for (size_t n = m_first; n != __vf_npos; n = m_pool[n].next)
            if (k < m_pool[n].kv.first)
                return iterator(this, n);
        return end();
    }
    size_t erase(const K& k)
    {
        size_t c = 0;
        for (iterator f = find(k); f != end(); f = find(k))
        {
            erase(f);
            ++c;
        }
        return c;
    }

protected:
    template<class KK, class... Args>
    pair<iterator, bool> do_emplace(KK&& k, Args&&... args)
    {
        // position: after every element whose key is <= k (upper bound), as the standard requires
        size_t after = __vf_npos; // insert after this node (npos: at front)
        for (size_t n = m_first; n != __vf_npos; n = m_pool[n].next)
        {
            if (k < m_pool[n].kv.first)
                break;
            if (!Multi && !(m_pool[n].kv.first < k))
                return pair<iterator, bool>(iterator(this, n), false);
            after = n;
        }
        size_t n = take_free();
        new (&m_pool[n].kv) pair<const K, V>(std::forward<KK>(k), V(std::forward<Args>(args)...));
        m_pool[n].live = true;
        m_pool[n].prev = after;
        m_pool[n].next = (after != __vf_npos) ? m_pool[after].next : m_first;
        if (m_pool[n].prev != __vf_npos)
            m_pool[m_pool[n].prev].next = n;
        else
            m_first = n;
        if (m_pool[n].next != __vf_npos)
            m_pool[m_pool[n].next].prev = n;
        else
            m_last = n;
        ++m_size;
        return pair<iterator, bool>(iterator(this, n), true);
    }

    // link a new node holding (k, args...) immediately BEFORE node `before` (npos: at the back)
    template<class KK, class... Args>
    iterator link_before(size_t before, KK&& k, Args&&... args)
    {
        size_t n = take_free();
        new (&m_pool[n].kv) pair<const K, V>(std::forward<KK>(k), V(std::forward<Args>(args)...));
        m_pool[n].live = true;
        m_pool[n].next = before;
        m_pool[n].prev = (before != __vf_npos) ? m_pool[before].prev : m_last;
        if (m_pool[n].prev != __vf_npos)
            m_pool[m_pool[n].prev].next = n;
        else
            m_first = n;
        if (before != __vf_npos)
            m_pool[before].prev = n;
        else
            m_last = n;
        ++m_size;
        return iterator(this, n);
    }
    // emplace_hint for equal-key containers, following libstdc++'s _M_get_insert_hint_equal_pos: the element goes
    // immediately before the hint when that keeps the order, immediately after it when that does, and otherwise to the
    // upper bound (key not greater than the hint's) or the lower bound (key greater than the hint's successor)
    template<class KK, class... Args>
    iterator do_emplace_hint_equal(iterator hint, KK&& k, Args&&... args)
    {
        __vf_check(hint.m == this, VF_MMAP_DEAD_ITER);
        if (hint.i == __vf_npos)
        {
            if (m_size > 0 && !(k < m_pool[m_last].kv.first))
                return link_before(__vf_npos, std::forward<KK>(k), std::forward<Args>(args)...);
            return do_emplace(std::forward<KK>(k), std::forward<Args>(args)...).first;
        }
        hint.check_live();
        const size_t h = hint.i;
        if (!(m_pool[h].kv.first < k))
        {
            if (h == m_first || !(k < m_pool[m_pool[h].prev].kv.first))
                return link_before(h, std::forward<KK>(k), std::forward<Args>(args)...);
            return do_emplace(std::forward<KK>(k), std::forward<Args>(args)...).first;
        }
        if (h == m_last)
            return link_before(__vf_npos, std::forward<KK>(k), std::forward<Args>(args)...);
        const size_t a = m_pool[h].next;
        if (!(m_pool[a].kv.first < k))
            return link_before(a, std::forward<KK>(k), std::forward<Args>(args)...);
        // lower bound
        size_t lb = __vf_npos;
        for (size_t n = m_first; n != __vf_npos; n = m_pool[n].next)
            if (!(m_pool[n].kv.first < k))
            {
                lb = n;
                break;
            }
        return link_before(lb, std::forward<KK>(k), std::forward<Args>(args)...);
    }

public:
    iterator erase(iterator it)
    {
        it.check_live();
        __vf_check(it.m == this, VF_MMAP_DEAD_ITER);
        size_t n    = it.i;
        size_t next = m_pool[n].next;
        if (m_pool[n].prev != __vf_npos)
            m_pool[m_pool[n].prev].next = m_pool[n].next;
        else
            m_first = m_pool[n].next;
        if (m_pool[n].next != __vf_npos)
            m_pool[m_pool[n].next].prev = m_pool[n].prev;
        else
            m_last = m_pool[n].prev;
        m_pool[n].kv.~pair<const K, V>();
        m_pool[n].live = false;
        --m_size;
        return iterator(this, next);
    }
    void clear()
    {
        while (m_first != __vf_npos)
        {
            erase(iterator(this, m_first));
        }
    }
    // C++17 node handles: extract() unlinks the element and hands it out with a mutable key; insert(node&&) files it again
    // (after every equal key, like emplace).  The model moves key and mapped value instead of keeping the node's address,
    // which the standard's "pointers and references stay valid" guarantee would need; iterators to the element are
    // invalidated by extract() in the standard as well.
    class node_type
    {
    public:
        node_type() : m_has(false), m_k(), m_v() {}
        node_type(K&& k, V&& v) : m_has(true), m_k(std::move(k)), m_v(std::move(v)) {}
        node_type(node_type&& o) : m_has(o.m_has), m_k(std::move(o.m_k)), m_v(std::move(o.m_v)) { o.m_has = false; }
        node_type& operator=(node_type&& o)
        {
            m_has   = o.m_has;
            m_k     = std::move(o.m_k);
            m_v     = std::move(o.m_v);
            o.m_has = false;
            return *this;
        }
        bool empty() const { return !m_has; }
        explicit operator bool() const { return m_has; }
        K& key() const
        {
            __vf_check(m_has, VF_MMAP_DEAD_ITER);
            return const_cast<K&>(m_k);
        }
        V& mapped() const
        {
            __vf_check(m_has, VF_MMAP_DEAD_ITER);
            return const_cast<V&>(m_v);
        }
        bool m_has;
        K    m_k;
        V    m_v;
    };
    node_type extract(iterator it)
    {
        it.check_live();
        __vf_check(it.m == this, VF_MMAP_DEAD_ITER);
        node_type nh(std::move(const_cast<K&>(m_pool[it.i].kv.first)), std::move(m_pool[it.i].kv.second));
        erase(it);
        return nh;
    }

private:
    size_t take_free()
    {
        for (size_t i = 0; i < m_pool_n; ++i)
        {
            if (!m_pool[i].live)
                return i;
        }
        __vf_assume(false);
        return 0;
    }

public:
    size_t m_first;
    size_t m_last;
    node*  m_pool;
    size_t m_pool_n;
    size_t m_size;
};

template<class K, class V>
class multimap : public __ordered_tab<K, V, true>
{
public:
    using iterator = typename __ordered_tab<K, V, true>::iterator;
    template<class KK, class... Args>
    iterator emplace(KK&& k, Args&&... args)
    {
        return this->do_emplace(std::forward<KK>(k), std::forward<Args>(args)...).first;
    }
    template<class KK, class... Args>
    iterator emplace_hint(iterator hint, KK&& k, Args&&... args)
    {
        return this->do_emplace_hint_equal(hint, std::forward<KK>(k), std::forward<Args>(args)...);
    }
    using node_type = typename __ordered_tab<K, V, true>::node_type;
    iterator insert(iterator hint, node_type&& nh) // hinted node insertion: same position rule as emplace_hint
    {
        if (nh.empty())
            return this->end();
        iterator r = this->do_emplace_hint_equal(hint, std::move(nh.m_k), std::move(nh.m_v));
        nh.m_has   = false;
        return r;
    }
    iterator insert(node_type&& nh)
    {
        if (nh.empty())
            return this->end();
        iterator r = this->do_emplace(std::move(nh.m_k), std::move(nh.m_v)).first;
        nh.m_has   = false;
        return r;
    }
};
template<class K, class V>
class map : public __ordered_tab<K, V, false>
{
public:
    using iterator = typename __ordered_tab<K, V, false>::iterator;
    template<class KK, class... Args>
    pair<iterator, bool> emplace(KK&& k, Args&&... args)
    {
        return this->do_emplace(std::forward<KK>(k), std::forward<Args>(args)...);
    }
    template<class KK, class... Args>
    pair<iterator, bool> try_emplace(KK&& k, Args&&... args)
    {
        return this->do_emplace(std::forward<KK>(k), std::forward<Args>(args)...);
    }
    template<class KK, class... Args>
    iterator emplace_hint(iterator, KK&& k, Args&&... args) // unique keys: the position is determined by the key
    {
        return this->do_emplace(std::forward<KK>(k), std::forward<Args>(args)...).first;
    }
};

// ---------------------------------------------------------------- mutex
class mutex
{
public:
    mutex() {}
    mutex(const mutex&) = delete;
    void lock() { __vf_mutex_lock(this); }
    void unlock() { __vf_mutex_unlock(this); }
    bool try_lock() { return __vf_mutex_try_lock(this); }
};
struct defer_lock_t { explicit defer_lock_t() = default; };
struct try_to_lock_t { explicit try_to_lock_t() = default; };
struct adopt_lock_t { explicit adopt_lock_t() = default; };
inline constexpr defer_lock_t  defer_lock{};
inline constexpr try_to_lock_t try_to_lock{};
inline constexpr adopt_lock_t  adopt_lock{};
template<class M>
class unique_lock
{
public:
    explicit unique_lock(M& m) : m_m(m), m_owns(true) { m_m.lock(); }
    unique_lock(M& m, defer_lock_t) : m_m(m), m_owns(false) {}
    unique_lock(M& m, try_to_lock_t) : m_m(m), m_owns(m.try_lock()) {}
    unique_lock(M& m, adopt_lock_t) : m_m(m), m_owns(true) {}
    bool owns_lock() const { return m_owns; }
    explicit operator bool() const { return m_owns; }
    bool try_lock()
    {
        m_owns = m_m.try_lock();
        return m_owns;
    }
    ~unique_lock()
    {
        if (m_owns)
            m_m.unlock();
    }
    void lock()
    {
        m_m.lock();
        m_owns = true;
    }
    void unlock()
    {
        m_m.unlock();
        m_owns = false;
    }
    unique_lock(const unique_lock&) = delete;

private:
    M&   m_m;
    bool m_owns;
};
template<class M>
class scoped_lock
{
public:
    explicit scoped_lock(M& m) : m_m(m) { m_m.lock(); }
    ~scoped_lock() { m_m.unlock(); }
    scoped_lock(const scoped_lock&) = delete;

private:
    M& m_m;
};
template<class M>
class lock_guard
{
public:
    explicit lock_guard(M& m) : m_m(m) { m_m.lock(); }
    lock_guard(M& m, adopt_lock_t) : m_m(m) {}
    ~lock_guard() { m_m.unlock(); }
    lock_guard(const lock_guard&) = delete;

private:
    M& m_m;
};

// ---------------------------------------------------------------- this_thread (scheduling hints have no effect on the model)
namespace this_thread
{
inline void yield() noexcept {}
template<class D>
inline void sleep_for(const D&) {}
} // namespace this_thread

// ---------------------------------------------------------------- atomic
enum memory_order
{
    memory_order_relaxed,
    memory_order_consume,
    memory_order_acquire,
    memory_order_release,
    memory_order_acq_rel,
    memory_order_seq_cst
};
inline void atomic_thread_fence(memory_order) {}

// ---------------------------------------------------------------- chrono
template<int64_t N, int64_t D = 1>
struct ratio
{
    static constexpr int64_t num = N;
    static constexpr int64_t den = D;
};
using milli = ratio<1, 1000>;

namespace chrono
{
template<class Rep, class Period>
class duration
{
public:
    constexpr duration() : m_c(0) {}
    constexpr explicit duration(Rep c) : m_c(c) {}
    // lossless conversions only (coarser -> finer)
    template<class P2>
    constexpr duration(const duration<Rep, P2>& o) : m_c(o.count() * ((P2::num * Period::den) / (P2::den * Period::num)))
    {
        static_assert((P2::num * Period::den) % (P2::den * Period::num) == 0, "lossy duration conversion");
    }
    constexpr Rep count() const { return m_c; }
    using rep    = Rep;
    using period = Period;
    static constexpr duration zero() { return duration(Rep(0)); }
    static constexpr duration min() { return duration(Rep(-9223372036854775807LL - 1)); }
    static constexpr duration max() { return duration(Rep(9223372036854775807LL)); }

private:
    Rep m_c;
};
template<class R, class P>
constexpr bool operator<(const duration<R, P>& a, const duration<R, P>& b)
{
    return a.count() < b.count();
}
template<class R, class P>
constexpr bool operator>(const duration<R, P>& a, const duration<R, P>& b)
{
    return b < a;
}
template<class R, class P>
constexpr bool operator<=(const duration<R, P>& a, const duration<R, P>& b)
{
    return !(b < a);
}
template<class R, class P>
constexpr bool operator>=(const duration<R, P>& a, const duration<R, P>& b)
{
    return !(a < b);
}
template<class R, class P>
constexpr bool operator==(const duration<R, P>& a, const duration<R, P>& b)
{
    return a.count() == b.count();
}
template<class R, class P>
constexpr bool operator!=(const duration<R, P>& a, const duration<R, P>& b)
{
    return a.count() != b.count();
}
template<class R, class P>
constexpr duration<R, P> operator+(const duration<R, P>& a, const duration<R, P>& b)
{
    return duration<R, P>(a.count() + b.count());
}
template<class R, class P>
constexpr duration<R, P> operator-(const duration<R, P>& a, const duration<R, P>& b)
{
    return duration<R, P>(a.count() - b.count());
}
template<class To, class R, class P>
constexpr To duration_cast(const duration<R, P>& d)
{
    return To(d.count() * ((P::num * To::period::den) / (P::den * To::period::num)));
}
// The model clock ticks in the same unit as std::chrono::milliseconds, see DESIGN.md.
using milliseconds = duration<int64_t, milli>;
using seconds      = duration<int64_t, ratio<1>>;
using minutes      = duration<int64_t, ratio<60>>;
using hours        = duration<int64_t, ratio<3600>>;

template<class Clock, class Dur = typename Clock::duration>
class time_point
{
public:
    constexpr time_point() : m_d() {}
    constexpr explicit time_point(Dur d) : m_d(d) {}
    constexpr Dur time_since_epoch() const { return m_d; }
    static constexpr time_point min() { return time_point(Dur::min()); }
    static constexpr time_point max() { return time_point(Dur::max()); }

private:
    Dur m_d;
};
template<class C, class D, class R2, class P2>
constexpr time_point<C, D> operator+(const time_point<C, D>& t, const duration<R2, P2>& d)
{
    return time_point<C, D>(D(t.time_since_epoch().count() + D(d).count()));
}
template<class C, class D, class R2, class P2>
constexpr time_point<C, D> operator-(const time_point<C, D>& t, const duration<R2, P2>& d)
{
    return time_point<C, D>(D(t.time_since_epoch().count() - D(d).count()));
}
template<class C, class D>
constexpr D operator-(const time_point<C, D>& a, const time_point<C, D>& b)
{
    return D(a.time_since_epoch().count() - b.time_since_epoch().count());
}
template<class C, class D>
constexpr bool operator!=(const time_point<C, D>& a, const time_point<C, D>& b)
{
    return a.time_since_epoch().count() != b.time_since_epoch().count();
}
template<class C, class D>
constexpr bool operator<(const time_point<C, D>& a, const time_point<C, D>& b)
{
    return a.time_since_epoch().count() < b.time_since_epoch().count();
}
template<class C, class D>
constexpr bool operator>(const time_point<C, D>& a, const time_point<C, D>& b)
{
    return b < a;
}
template<class C, class D>
constexpr bool operator>=(const time_point<C, D>& a, const time_point<C, D>& b)
{
    return !(a < b);
}
template<class C, class D>
constexpr bool operator<=(const time_point<C, D>& a, const time_point<C, D>& b)
{
    return !(b < a);
}
template<class C, class D>
constexpr bool operator==(const time_point<C, D>& a, const time_point<C, D>& b)
{
    return a.time_since_epoch().count() == b.time_since_epoch().count();
}

struct steady_clock
{
    using duration   = milliseconds;
    using time_point = chrono::time_point<steady_clock, duration>;
    static time_point now() noexcept { return time_point(duration(__vf_now())); }
};
} // namespace chrono

// ---------------------------------------------------------------- random
class random_device
{
public:
    unsigned operator()() { return 0; }
};
class mt19937
{
public:
    using result_type = unsigned long;
    explicit mt19937(unsigned) {}
    mt19937() {}
    void seed(unsigned) {}
    // a direct draw: every 32-bit outcome (symbolic)
    result_type operator()() { return static_cast<result_type>(__vf_random(0, 0xFFFFFFFFull)); }
    static constexpr result_type min() { return 0; }
    static constexpr result_type max() { return 0xFFFFFFFFul; }
};
template<class T>
class uniform_int_distribution
{
public:
    uniform_int_distribution(T a, T b) : m_a(a), m_b(b) {}
    template<class G>
    T operator()(G&)
    {
        __vf_check(m_a <= m_b, VF_RANDOM_RANGE);
        return static_cast<T>(__vf_random(m_a, m_b));
    }

private:
    T m_a, m_b;
};

} // namespace std
