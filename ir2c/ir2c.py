#!/usr/bin/env python3
"""ir2c: translate (a subset of) LLVM-14 textual IR into C for CBMC.  PROTOTYPE (design probe).

Typed translation: LLVM struct types become C structs with fields f0..fn, GEPs become
field/array member expressions, SSA values become C locals, phis become parallel copies.
"""
import re, sys, collections

# ----------------------------------------------------------------------------- types
class Ty:
    pass
class IntTy(Ty):
    def __init__(s, bits): s.bits = bits
    def __repr__(s): return 'i%d' % s.bits
class FloatTy(Ty):
    def __init__(s, kind): s.kind = kind
    def __repr__(s): return s.kind
class VoidTy(Ty):
    def __repr__(s): return 'void'
class PtrTy(Ty):
    def __init__(s, to): s.to = to
    def __repr__(s): return '%r*' % (s.to,)
class ArrTy(Ty):
    def __init__(s, n, el): s.n = n; s.el = el
    def __repr__(s): return '[%d x %r]' % (s.n, s.el)
class StructTy(Ty):
    def __init__(s, name, fields=None, packed=False, opaque=False):
        s.name = name; s.fields = fields; s.packed = packed; s.opaque = opaque; s.cname = None
    def __repr__(s): return '%%%s' % s.name
class FnTy(Ty):
    def __init__(s, ret, args, vararg=False): s.ret = ret; s.args = args; s.vararg = vararg
    def __repr__(s): return '%r(%s)' % (s.ret, ','.join(map(repr, s.args)))
class LabelTy(Ty):
    def __repr__(s): return 'label'
class MetaTy(Ty):
    def __repr__(s): return 'metadata'

VOID = VoidTy()

def ty_eq(a, b):
    if type(a) != type(b): return False
    if isinstance(a, IntTy): return a.bits == b.bits
    if isinstance(a, FloatTy): return a.kind == b.kind
    if isinstance(a, VoidTy): return True
    if isinstance(a, PtrTy): return ty_eq(a.to, b.to)
    if isinstance(a, ArrTy): return a.n == b.n and ty_eq(a.el, b.el)
    if isinstance(a, StructTy): return a is b
    if isinstance(a, FnTy): return ty_eq(a.ret, b.ret) and len(a.args) == len(b.args) and all(ty_eq(x, y) for x, y in zip(a.args, b.args))
    return True

class Lexer:
    """Tokenizer for a single logical IR line / operand list."""
    TOK = re.compile(r'''\s*(?:
        (?P<str>c?"(?:[^"\\]|\\.)*")|
        (?P<lname>%"(?:[^"\\]|\\.)*"|%[-a-zA-Z$._0-9]+)|
        (?P<gname>@"(?:[^"\\]|\\.)*"|@[-a-zA-Z$._0-9]+)|
        (?P<meta>![-a-zA-Z$._0-9]*(?:\([^)]*\))?)|
        (?P<attr>\#[0-9]+)|
        (?P<num>-?[0-9]+\.[0-9]*(?:e[+-]?[0-9]+)?|0x[0-9A-Fa-f]+|-?[0-9]+)|
        (?P<word>[a-zA-Z_][a-zA-Z0-9_.]*)|
        (?P<punct>\.\.\.|<\{|\}>|[()\[\]{}<>,=*:])
    )''', re.X)
    def __init__(s, text):
        s.toks = []
        pos = 0
        while pos < len(text):
            m = s.TOK.match(text, pos)
            if not m:
                if text[pos:].strip() == '': break
                raise SyntaxError('lex error at: %r' % text[pos:pos + 40])
            pos = m.end()
            kind = m.lastgroup
            s.toks.append((kind, m.group(kind)))
        s.i = 0
    def peek(s, k=0):
        return s.toks[s.i + k] if s.i + k < len(s.toks) else (None, None)
    def next(s):
        t = s.peek(); s.i += 1; return t
    def accept(s, val):
        if s.peek()[1] == val:
            s.i += 1; return True
        return False
    def expect(s, val):
        t = s.next()
        if t[1] != val: raise SyntaxError('expected %r got %r (toks %r)' % (val, t, s.toks[max(0, s.i - 6):s.i + 3]))
    def done(s): return s.i >= len(s.toks)

class Module:
    def __init__(s):
        s.structs = collections.OrderedDict()  # name -> StructTy
        s.lit_structs = {}                     # key -> StructTy
        s.globals = collections.OrderedDict()
        s.funcs = collections.OrderedDict()

    def struct(s, name):
        if name not in s.structs:
            s.structs[name] = StructTy(name, None, opaque=True)
        return s.structs[name]

    def lit_struct(s, fields, packed):
        key = ('P' if packed else 'S') + ','.join(map(repr, fields))
        if key not in s.lit_structs:
            st = StructTy('lit%d' % len(s.lit_structs), fields, packed)
            st.literal = True
            s.lit_structs[key] = st
        return s.lit_structs[key]

    def parse_type(s, lx):
        kind, v = lx.next()
        if kind == 'word':
            if re.fullmatch(r'i[0-9]+', v): t = IntTy(int(v[1:]))
            elif v in ('float', 'double'): t = FloatTy(v)
            elif v == 'void': t = VOID
            elif v == 'label': t = LabelTy()
            elif v == 'metadata': t = MetaTy()
            elif v == 'opaque': t = StructTy('opaque', None, opaque=True)
            elif v == 'ptr': t = PtrTy(IntTy(8))
            else: raise SyntaxError('unknown type word %r' % v)
        elif kind == 'lname':
            t = s.struct(v[1:])
        elif v == '[':
            n = int(lx.next()[1]); lx.expect('x'); el = s.parse_type(lx); lx.expect(']')
            t = ArrTy(n, el)
        elif v == '{' or v == '<{':
            packed = (v == '<{')
            fields = []
            close = '}>' if packed else '}'
            if not lx.accept(close):
                while True:
                    fields.append(s.parse_type(lx))
                    if lx.accept(close): break
                    lx.expect(',')
            t = s.lit_struct(fields, packed)
        elif v == '<':
            raise SyntaxError('vector types unsupported')
        else:
            raise SyntaxError('bad type start %r' % (v,))
        while True:
            if lx.accept('*'):
                t = PtrTy(t)
            elif lx.peek()[1] == '(':
                # function type
                lx.next()
                args = []; vararg = False
                if not lx.accept(')'):
                    while True:
                        if lx.accept('...'): vararg = True
                        else: args.append(s.parse_type(lx))
                        if lx.accept(')'): break
                        lx.expect(',')
                t = FnTy(t, args, vararg)
            else:
                break
        return t

# ----------------------------------------------------------------------------- layout (x86-64)
def ty_align(t):
    if isinstance(t, IntTy): return max(1, min(8, (t.bits + 7) // 8)) if t.bits <= 64 else 16
    if isinstance(t, FloatTy): return 4 if t.kind == 'float' else 8
    if isinstance(t, PtrTy): return 8
    if isinstance(t, ArrTy): return ty_align(t.el)
    if isinstance(t, StructTy):
        if t.packed: return 1
        return max([ty_align(f) for f in t.fields] + [1])
    raise ValueError('align of %r' % t)
def ty_size(t):
    if isinstance(t, IntTy):
        b = (t.bits + 7) // 8
        p = 1
        while p < b: p *= 2
        return p
    if isinstance(t, FloatTy): return 4 if t.kind == 'float' else 8
    if isinstance(t, PtrTy): return 8
    if isinstance(t, ArrTy): return t.n * ty_size(t.el)
    if isinstance(t, StructTy):
        off = 0
        for f in t.fields:
            if not t.packed:
                a = ty_align(f); off = (off + a - 1) // a * a
            off += ty_size(f)
        if not t.packed:
            a = ty_align(t); off = (off + a - 1) // a * a
        return off
    raise ValueError('size of %r' % t)

# ----------------------------------------------------------------------------- C emission helpers
def cident(name):
    out = re.sub(r'[^A-Za-z0-9_]', '_', name)
    if not re.match(r'[A-Za-z_]', out): out = '_' + out
    return out

class Emitter:
    def __init__(s, mod):
        s.mod = mod
        s.names = {}
        s.used = set()
    def uniq(s, key, base):
        if key in s.names: return s.names[key]
        base = cident(base)[:60]
        n = base; k = 0
        while n in s.used:
            k += 1; n = '%s_%d' % (base, k)
        s.used.add(n); s.names[key] = n
        return n
    def struct_cname(s, st):
        if st.cname is None:
            st.cname = s.uniq(('struct', id(st)), 'S_' + st.name)
        return st.cname
    def ctype(s, t, decl=''):
        """C declaration of `decl` with type t."""
        if isinstance(t, IntTy):
            if t.bits == 1: b = '_Bool'
            elif t.bits <= 8: b = 'uint8_t'
            elif t.bits <= 16: b = 'uint16_t'
            elif t.bits <= 32: b = 'uint32_t'
            elif t.bits <= 64: b = 'uint64_t'
            elif t.bits <= 128: b = 'unsigned __int128'
            else: raise ValueError('int width %d' % t.bits)
            return (b + ' ' + decl).strip()
        if isinstance(t, FloatTy): return (t.kind + ' ' + decl).strip()
        if isinstance(t, VoidTy): return ('void ' + decl).strip()
        if isinstance(t, StructTy): return ('struct %s %s' % (s.struct_cname(t), decl)).strip()
        if isinstance(t, PtrTy):
            if isinstance(t.to, (ArrTy, FnTy)): return s.ctype(t.to, '(*%s)' % decl)
            if isinstance(t.to, VoidTy): return s.ctype(IntTy(8), '*' + decl)
            return s.ctype(t.to, '*' + decl)
        if isinstance(t, ArrTy): return s.ctype(t.el, '%s[%d]' % (decl, max(t.n, 0)))
        if isinstance(t, FnTy):
            args = ', '.join(s.ctype(a) for a in t.args) or 'void'
            return s.ctype(t.ret, '%s(%s)' % (decl, args))
        raise ValueError('ctype %r' % t)

# ----------------------------------------------------------------------------- values
class Val:
    """An operand: C expression text plus LLVM type."""
    def __init__(s, c, ty): s.c = c; s.ty = ty

class Func:
    def __init__(s, name, ret, params, declared_only):
        s.name = name; s.ret = ret; s.params = params; s.declared_only = declared_only
        s.blocks = collections.OrderedDict()  # label -> list of raw instruction lines
        s.vararg = False

INTRINSIC_SKIP = ('llvm.lifetime.', 'llvm.dbg.', 'llvm.experimental.noalias', 'llvm.assume', 'llvm.invariant.', 'llvm.prefetch')

class Translator:
    def __init__(s, text, opts):
        s.mod = Module()
        s.em = Emitter(s.mod)
        s.opts = opts
        s.out = []
        s.text = text
        s.fn_cname = {}
        s.global_ty = {}
        s.nondet_needed = set()

    # ---- parsing of module level
    def parse(s):
        lines = s.text.split('\n')
        i = 0
        cur = None; curblock = None
        while i < len(lines):
            ln = lines[i]; i += 1
            st = ln.strip()
            if cur is not None:
                if st == '}':
                    cur = None; continue
                if st == '' or st.startswith(';'): continue
                m = re.match(r'^([-a-zA-Z$._0-9]+|"[^"]*"):', st)
                if m and not ln.startswith('  '):
                    curblock = m.group(1).strip('"'); cur.blocks[curblock] = []; continue
                # multi-line switch
                if st.startswith('switch ') and st.endswith('['):
                    while not lines[i].strip().startswith(']'):
                        st += ' ' + lines[i].strip(); i += 1
                    st += ' ]'; i += 1
                cur.blocks[curblock].append(st)
                continue
            if st == '' or st.startswith(';') or st.startswith('source_filename') or st.startswith('target ') \
               or st.startswith('attributes ') or st.startswith('!') or st.startswith('$'):
                continue
            m = re.match(r'^(%"(?:[^"\\]|\\.)*"|%[-a-zA-Z$._0-9]+) = type (.*)$', st)
            if m:
                name = m.group(1)[1:]
                body = m.group(2).strip()
                stt = s.mod.struct(name)
                if body == 'opaque':
                    stt.opaque = True; stt.fields = None
                else:
                    lx = Lexer(body)
                    t = s.mod.parse_type(lx)
                    assert isinstance(t, StructTy)
                    stt.fields = t.fields; stt.packed = t.packed; stt.opaque = False
                continue
            if st.startswith('define ') or st.startswith('declare '):
                f = s.parse_fn_header(st)
                s.mod.funcs[f.name] = f
                if st.startswith('define '):
                    cur = f; curblock = None
                    # entry block has implicit label = number of params (unnamed) ; we name it 'entry'
                    curblock = str(len(f.params)); cur.blocks[curblock] = []
                continue
            m = re.match(r'^(@"(?:[^"\\]|\\.)*"|@[-a-zA-Z$._0-9]+) = (.*)$', st)
            if m:
                s.mod.globals[m.group(1)[1:]] = m.group(2)
                continue
            raise SyntaxError('unhandled top-level line: %s' % st[:120])

    PARAM_ATTRS = {'noundef', 'nonnull', 'zeroext', 'signext', 'nocapture', 'readonly', 'writeonly', 'noalias', 'returned',
                   'readnone', 'immarg', 'inreg', 'nofree', 'nest', 'swiftself', 'noundef'}
    def skip_param_attrs(s, lx):
        while True:
            k, v = lx.peek()
            if v in s.PARAM_ATTRS:
                lx.next()
            elif v in ('align', 'dereferenceable', 'dereferenceable_or_null'):
                lx.next()
                if lx.accept('('):
                    lx.next(); lx.expect(')')
                else:
                    lx.next()
            elif v in ('sret', 'byval', 'byref', 'preallocated', 'inalloca', 'elementtype'):
                lx.next()
                if lx.accept('('):
                    s.mod.parse_type(lx); lx.expect(')')
            else:
                break

    FN_PREFIX = {'dso_local', 'linkonce_odr', 'internal', 'private', 'weak_odr', 'weak', 'external', 'hidden', 'protected',
                 'default', 'unnamed_addr', 'local_unnamed_addr', 'available_externally', 'fastcc', 'ccc', 'coldcc', 'dso_preemptable',
                 'extern_weak', 'common', 'appending'}
    def parse_fn_header(s, st):
        is_def = st.startswith('define ')
        lx = Lexer(st[len('define ') if is_def else len('declare '):].rstrip('{').strip())
        while lx.peek()[1] in s.FN_PREFIX: lx.next()
        s.skip_param_attrs(lx)
        ret = s.parse_ret_type(lx)
        k, name = lx.next()
        assert k == 'gname', (k, name, st[:100])
        name = name[1:].strip('"')
        lx.expect('(')
        params = []
        vararg = False
        if not lx.accept(')'):
            while True:
                if lx.accept('...'):
                    vararg = True
                else:
                    t = s.mod.parse_type(lx)
                    s.skip_param_attrs(lx)
                    pname = None
                    if lx.peek()[0] == 'lname':
                        pname = lx.next()[1][1:]
                    params.append((t, pname))
                if lx.accept(')'): break
                lx.expect(',')
        f = Func(name, ret, params, not is_def)
        f.vararg = vararg
        return f

    def parse_ret_type(s, lx):
        return s.mod.parse_type(lx)

    # ---- operand parsing within a function
    def const_val(s, ty, lx, fn):
        k, v = lx.next()
        if k == 'num':
            if isinstance(ty, FloatTy):
                if v.startswith('0x'):
                    import struct
                    d = struct.unpack('>d', bytes.fromhex(v[2:].rjust(16, '0')))[0]
                    return Val(repr(float(d)) + ('f' if ty.kind == 'float' else ''), ty)
                return Val(v + ('f' if ty.kind == 'float' else ''), ty)
            n = int(v, 0)
            if isinstance(ty, IntTy):
                if ty.bits == 1: return Val('1' if n & 1 else '0', ty)
                n &= (1 << ty.bits) - 1
                return Val('((%s)%dULL)' % (s.em.ctype(ty), n), ty)
            raise SyntaxError('num for type %r' % ty)
        if k == 'word':
            if v == 'true': return Val('1', ty)
            if v == 'false': return Val('0', ty)
            if v == 'null': return Val('((%s)0)' % s.em.ctype(ty), ty)
            if v in ('undef', 'poison'):
                return Val(s.undef_of(ty), ty)
            if v == 'zeroinitializer':
                return Val('((%s){0})' % s.em.ctype(ty), ty)
            if v in ('getelementptr', 'bitcast', 'inttoptr', 'ptrtoint'):
                return s.const_expr(v, lx, fn)
            raise SyntaxError('const word %r' % v)
        if k == 'lname':
            return Val(fn.local(v[1:]), ty)
        if k == 'gname':
            g = v[1:].strip('"')
            if g in s.mod.funcs:
                return Val(s.fname(g), ty)
            return Val('(&%s)' % s.gname(g), ty)
        raise SyntaxError('operand %r %r' % (k, v))

    def undef_of(s, ty):
        if isinstance(ty, (IntTy, FloatTy, PtrTy)):
            return '((%s)0)' % s.em.ctype(ty)
        return '((%s){0})' % s.em.ctype(ty)

    def const_expr(s, op, lx, fn):
        lx.expect('(') if op != 'getelementptr' else None
        if op == 'getelementptr':
            lx.accept('inbounds')
            lx.expect('(')
            base_ty = s.mod.parse_type(lx); lx.expect(',')
            pty = s.mod.parse_type(lx); p = s.const_val(pty, lx, fn)
            idx = []
            while lx.accept(','):
                it = s.mod.parse_type(lx); idx.append(s.const_val(it, lx, fn))
            lx.expect(')')
            return s.gep(base_ty, p, idx)
        ft = s.mod.parse_type(lx); v = s.const_val(ft, lx, fn)
        lx.expect('to'); tt = s.mod.parse_type(lx); lx.expect(')')
        return Val('((%s)%s)' % (s.em.ctype(tt), v.c), tt)

    def typed_operand(s, lx, fn):
        ty = s.mod.parse_type(lx)
        s.skip_param_attrs(lx)
        return s.const_val(ty, lx, fn)

    def fname(s, name):
        return s.em.uniq(('fn', name), name if re.fullmatch(r'[A-Za-z_][A-Za-z0-9_]*', name) else 'F_' + name)
    def gname(s, name):
        return s.em.uniq(('gl', name), 'G_' + name)

    def gep(s, base_ty, p, idx):
        """p: Val pointer to base_ty; idx: list of Val."""
        cur = base_ty
        first = idx[0]
        if first.c in ('((uint64_t)0ULL)', '((uint32_t)0ULL)'):
            expr = '(*%s)' % p.c
        else:
            expr = '%s[(int64_t)%s]' % (p.c, first.c) if isinstance(first.ty, IntTy) and first.ty.bits == 64 else '%s[(int64_t)(int32_t)%s]' % (p.c, first.c)
        root = (expr, cur, 0)   # (lvalue, type, byte offset of the current position inside root)
        for ix in idx[1:]:
            if isinstance(cur, StructTy):
                m = re.search(r'\)(\d+)ULL\)$', ix.c)
                assert m, 'struct index must be constant: %s' % ix.c
                k = int(m.group(1))
                o = 0
                for j, ft in enumerate(cur.fields):
                    if not cur.packed:
                        a = ty_align(ft); o = (o + a - 1) // a * a
                    if j == k: break
                    o += ty_size(ft)
                root = (root[0], root[1], root[2] + o)
                expr = '%s.f%d' % (expr, k)
                cur = cur.fields[k]
            elif isinstance(cur, ArrTy):
                expr = '%s[(int64_t)%s]' % (expr, ix.c)
                cur = cur.el
                mc = re.fullmatch(r'\(\(uint\d+_t\)(\d+)ULL\)', ix.c)
                if mc:
                    root = (root[0], root[1], root[2] + int(mc.group(1)) * ty_size(cur))
                else:
                    root = (expr, cur, 0)
            else:
                raise SyntaxError('gep into %r' % cur)
        s.gep_info = getattr(s, 'gep_info', {})
        s.gep_info['(&%s)' % expr] = root
        return Val('(&%s)' % expr, PtrTy(cur))

    def leaves(s, lv, ty, off, out):
        """append (offset, size, lvalue-or-None-for-padding, type) for every scalar leaf and padding gap of ty."""
        if isinstance(ty, StructTy):
            o = 0
            for k, ft in enumerate(ty.fields):
                if not ty.packed:
                    a = ty_align(ft); no = (o + a - 1) // a * a
                    if no > o: out.append((off + o, no - o, None, None))
                    o = no
                s.leaves('%s.f%d' % (lv, k), ft, off + o, out)
                o += ty_size(ft)
            tot = ty_size(ty)
            if tot > o: out.append((off + o, tot - o, None, None))
        elif isinstance(ty, ArrTy):
            es = ty_size(ty.el)
            for k in range(ty.n):
                s.leaves('%s[%d]' % (lv, k), ty.el, off + k * es, out)
        else:
            out.append((off, ty_size(ty), lv, ty))

    def region(s, v, n):
        """leaf lvalues covering bytes [0,n) starting at pointer value v, or None."""
        corg = getattr(s, 'cast_origin', {})
        ginfo = getattr(s, 'gep_info', {})
        x = v.c; xt = v.ty
        if x in corg:
            x, xt = corg[x]
        if not isinstance(xt, PtrTy) or isinstance(xt.to, (VoidTy, FnTy)) or (isinstance(xt.to, StructTy) and xt.to.opaque):
            return None
        out = []
        if x in ginfo:
            rlv, rty, roff = ginfo[x]
        else:
            rlv, rty, roff = '(*%s)' % x, xt.to, 0
        allp = []
        s.leaves(rlv, rty, 0, allp)
        out = [(off - roff, sz, l, t) for (off, sz, l, t) in allp if off >= roff]
        sel = sorted([e for e in out if e[0] < n], key=lambda e: e[0])
        if not sel: return None
        pos = 0
        for e in sel:
            if e[0] != pos: return None
            pos += e[1]
        if pos != n: return None
        return [e for e in sel if e[2] is not None]

    # ---- function body translation
    def translate_fn(s, f):
        em = s.em
        locals_ = collections.OrderedDict()   # llvm name -> (cname, type)
        class FnCtx:
            pass
        fn = FnCtx()
        pure_defs = {}
        for b, insts in f.blocks.items():
            for raw in insts:
                mm = re.match(r'^(%"(?:[^"\\]|\\.)*"|%[-a-zA-Z$._0-9]+) = (getelementptr|bitcast) ', raw)
                if mm:
                    pure_defs[mm.group(1)[1:]] = (raw, b)
        aliases = {}
        def local(name):
            if name in pure_defs:
                if name not in aliases:
                    aliases[name] = None
                    raw, b = pure_defs[name]
                    s.translate_inst(raw, f, fn, None, locals_, b, {}, [], [], alias_sink=aliases)
                assert aliases[name] is not None, 'cyclic pure def %s' % name
                return aliases[name]
            return 'v_' + cident(name)
        fn.local = local
        fn.pure_defs = pure_defs
        def define(name, ty):
            cn = 'v_' + cident(name)
            locals_[name] = (cn, ty)
            return cn
        # params
        pn = 0
        cparams = []
        for (t, name) in f.params:
            if name is None:
                name = str(pn)
            cn = define(name, t)
            cparams.append(em.ctype(t, cn))
            pn += 1
        # unnamed numbering: params take 0..n-1, entry block takes n
        # pass 1: find all defs with their types (need result types -> do a typing pass by translating twice)
        body = []
        phis = {}   # block -> list of (cname, ty, [(valtext, predlabel)])
        block_labels = {}
        for b in f.blocks:
            block_labels[b] = 'L_' + cident(b)
        # We translate in one pass but operands may reference values defined later (phi incoming). For phi incoming
        # operands we defer resolving to the end.
        deferred_phi = []
        alloca_decls = []
        for b, insts in f.blocks.items():
            body.append('%s: ;' % block_labels[b])
            # phi handling: at block entry, copy from tmp
            for raw in insts:
                body.extend(s.translate_inst(raw, f, fn, define, locals_, b, block_labels, deferred_phi, alloca_decls))
        # resolve phis: insert copies before terminators of predecessor blocks.
        # We implement by: each phi has tmp var; each branch edge pred->blk emits assignments. Since terminators were
        # emitted as 'goto L;' with marker comments, we post-process: replace '/*EDGE pred blk*/' by copies.
        edge_copies = collections.defaultdict(list)
        for (blk, cn, ty, incoming_raw) in deferred_phi:
            for (valtxt, pred) in incoming_raw:
                lx = Lexer(valtxt)
                v = s.const_val(ty, lx, fn)
                edge_copies[(pred, blk)].append((cn, v.c))
        out = []
        def edge_sub(m):
            cps = edge_copies.get((m.group(1), m.group(2)), [])
            return ''.join(' %s_t = %s;' % (cn, vc) for cn, vc in cps) + ''.join(' %s = %s_t;' % (cn, cn) for cn, vc in cps)
        for ln in body:
            ln = re.sub(r'/\*EDGE (\S+) (\S+)\*/', edge_sub, ln)
            out.append(ln)
        decls = []
        pnames = set(str(i) if n is None else n for i, (t, n) in enumerate(f.params))
        for name, (cn, ty) in locals_.items():
            if name in pnames: continue
            decls.append('  %s;' % em.ctype(ty, cn))
        for (blk, cn, ty, inc) in deferred_phi:
            decls.append('  %s;' % em.ctype(ty, cn + '_t'))
        decls.extend(alloca_decls)
        hdr = '%s(%s)' % (em.ctype(f.ret, s.fname(f.name)), ', '.join(cparams) or 'void')
        return hdr, decls, out

    def translate_inst(s, raw, f, fn, define, locals_, curblk, labels, deferred_phi, alloca_decls, alias_sink=None):
        em = s.em
        # strip metadata suffixes
        raw = re.sub(r',\s*!\w+(\.\w+)*\s+!\d+', '', raw)
        raw = re.sub(r'\s*#\d+\s*$', '', raw)
        res = None
        m = re.match(r'^(%"(?:[^"\\]|\\.)*"|%[-a-zA-Z$._0-9]+) = (.*)$', raw)
        if m:
            res = m.group(1)[1:]; raw = m.group(2)
        if alias_sink is None and res is not None and res in fn.pure_defs:
            fn.local(res)
            return []
        lx = Lexer(raw)
        k, op = lx.next()
        while op in ('tail', 'musttail', 'notail'):
            k, op = lx.next()
        L = []
        def setres(ty, expr):
            cn = define(res, ty)
            L.append('  %s = %s;' % (cn, expr))
        def edge(to):
            return '/*EDGE %s %s*/ goto %s;' % (curblk, to, labels[to])
        def lbl():
            lx.expect('label'); return lx.next()[1][1:].strip('"')

        if op in ('add', 'sub', 'mul', 'udiv', 'sdiv', 'urem', 'srem', 'shl', 'lshr', 'ashr', 'and', 'or', 'xor'):
            while lx.peek()[1] in ('nsw', 'nuw', 'exact'): lx.next()
            ty = s.mod.parse_type(lx); a = s.const_val(ty, lx, fn); lx.expect(','); b = s.const_val(ty, lx, fn)
            ct = em.ctype(ty)
            bits = ty.bits
            sct = {8: 'int8_t', 16: 'int16_t', 32: 'int32_t', 64: 'int64_t', 1: 'int8_t', 128: '__int128'}.get(bits)
            cop = {'add': '+', 'sub': '-', 'mul': '*', 'udiv': '/', 'urem': '%', 'shl': '<<', 'lshr': '>>', 'and': '&', 'or': '|', 'xor': '^'}
            if op in cop:
                if bits == 1 and op in ('add', 'sub'): expr = '(%s)((%s ^ %s) & 1)' % (ct, a.c, b.c)
                elif bits == 1 and op == 'mul': expr = '(%s)(%s & %s)' % (ct, a.c, b.c)
                else: expr = '(%s)(%s %s %s)' % (ct, a.c, cop[op], b.c)
            elif op == 'sdiv': expr = '(%s)((%s)%s / (%s)%s)' % (ct, sct, a.c, sct, b.c)
            elif op == 'srem': expr = '(%s)((%s)%s %% (%s)%s)' % (ct, sct, a.c, sct, b.c)
            elif op == 'ashr': expr = '(%s)((%s)%s >> %s)' % (ct, sct, a.c, b.c)
            setres(ty, expr)
        elif op in ('fadd', 'fsub', 'fmul', 'fdiv'):
            while lx.peek()[1] in ('fast', 'nnan', 'ninf', 'nsz', 'arcp', 'contract', 'afn', 'reassoc'): lx.next()
            ty = s.mod.parse_type(lx); a = s.const_val(ty, lx, fn); lx.expect(','); b = s.const_val(ty, lx, fn)
            setres(ty, '(%s %s %s)' % (a.c, {'fadd': '+', 'fsub': '-', 'fmul': '*', 'fdiv': '/'}[op], b.c))
        elif op == 'fneg':
            ty = s.mod.parse_type(lx); a = s.const_val(ty, lx, fn)
            setres(ty, '(-%s)' % a.c)
        elif op == 'icmp':
            pred = lx.next()[1]
            ty = s.mod.parse_type(lx); a = s.const_val(ty, lx, fn); lx.expect(','); b = s.const_val(ty, lx, fn)
            cop = {'eq': '==', 'ne': '!=', 'ugt': '>', 'uge': '>=', 'ult': '<', 'ule': '<=', 'sgt': '>', 'sge': '>=', 'slt': '<', 'sle': '<='}[pred]
            if pred[0] == 's' and isinstance(ty, IntTy):
                sct = {8: 'int8_t', 16: 'int16_t', 32: 'int32_t', 64: 'int64_t', 1: 'int8_t'}[ty.bits]
                expr = '((%s)%s %s (%s)%s)' % (sct, a.c, cop, sct, b.c)
            elif isinstance(ty, PtrTy) and pred not in ('eq', 'ne'):
                expr = '((uintptr_t)%s %s (uintptr_t)%s)' % (a.c, cop, b.c)
            else:
                expr = '(%s %s %s)' % (a.c, cop, b.c)
            setres(IntTy(1), expr)
        elif op == 'fcmp':
            while lx.peek()[1] in ('fast', 'nnan', 'ninf', 'nsz', 'arcp', 'contract', 'afn', 'reassoc'): lx.next()
            pred = lx.next()[1]
            ty = s.mod.parse_type(lx); a = s.const_val(ty, lx, fn); lx.expect(','); b = s.const_val(ty, lx, fn)
            base = {'oeq': '==', 'ogt': '>', 'oge': '>=', 'olt': '<', 'ole': '<=', 'one': '!=',
                    'ueq': '==', 'ugt': '>', 'uge': '>=', 'ult': '<', 'ule': '<=', 'une': '!='}
            if pred in ('true', 'false'): expr = '1' if pred == 'true' else '0'
            elif pred == 'ord': expr = '(%s == %s && %s == %s)' % (a.c, a.c, b.c, b.c)
            elif pred == 'uno': expr = '(%s != %s || %s != %s)' % (a.c, a.c, b.c, b.c)
            elif pred == 'one': expr = '(%s < %s || %s > %s)' % (a.c, b.c, a.c, b.c)
            elif pred[0] == 'o': expr = '(%s %s %s)' % (a.c, base[pred], b.c)
            elif pred == 'une': expr = '(%s != %s)' % (a.c, b.c)
            else: expr = '(!(%s == %s && %s == %s) || (%s %s %s))' % (a.c, a.c, b.c, b.c, a.c, base[pred], b.c)
            setres(IntTy(1), expr)
        elif op in ('zext', 'sext', 'trunc', 'bitcast', 'ptrtoint', 'inttoptr', 'fptoui', 'fptosi', 'uitofp', 'sitofp', 'fpext', 'fptrunc', 'addrspacecast'):
            ft = s.mod.parse_type(lx); v = s.const_val(ft, lx, fn); lx.expect('to'); tt = s.mod.parse_type(lx)
            ct = em.ctype(tt)
            if op == 'sext':
                sct = {1: None, 8: 'int8_t', 16: 'int16_t', 32: 'int32_t', 64: 'int64_t'}[ft.bits]
                if ft.bits == 1: expr = '(%s)(%s ? -1 : 0)' % (ct, v.c)
                else: expr = '(%s)(%s)%s' % (ct, sct, v.c)
            elif op == 'trunc' and tt.bits == 1: expr = '(_Bool)(%s & 1)' % v.c
            elif op in ('sitofp',):
                sct = {8: 'int8_t', 16: 'int16_t', 32: 'int32_t', 64: 'int64_t'}[ft.bits]
                expr = '(%s)(%s)%s' % (ct, sct, v.c)
            elif op == 'fptosi':
                sct = {8: 'int8_t', 16: 'int16_t', 32: 'int32_t', 64: 'int64_t'}[tt.bits]
                expr = '(%s)(%s)%s' % (ct, sct, v.c)
            elif op == 'bitcast' and not (isinstance(ft, PtrTy) and isinstance(tt, PtrTy)):
                raise SyntaxError('non-pointer bitcast unsupported: %s' % raw)
            else: expr = '(%s)%s' % (ct, v.c)
            if alias_sink is not None:
                expr = '(%s)' % expr
                alias_sink[res] = expr
                s.cast_origin = getattr(s, 'cast_origin', {})
                s.cast_origin[expr] = (v.c, ft)
                return []
            cn = define(res, tt)
            L.append('  %s = %s;' % (cn, expr))
        elif op == 'getelementptr':
            lx.accept('inbounds')
            base_ty = s.mod.parse_type(lx); lx.expect(',')
            p = s.typed_operand(lx, fn)
            idx = []
            while lx.accept(','):
                idx.append(s.typed_operand(lx, fn))
            v = s.gep(base_ty, p, idx)
            if alias_sink is not None:
                alias_sink[res] = v.c
                return []
            setres(v.ty, v.c)
        elif op == 'load':
            lx.accept('volatile')
            ty = s.mod.parse_type(lx); lx.expect(','); p = s.typed_operand(lx, fn)
            if s.opts.instrument_access: L.append('  __VF_ACCESS(%s, 0);' % p.c)
            setres(ty, '*%s' % p.c)
        elif op == 'store':
            lx.accept('volatile')
            v = s.typed_operand(lx, fn); lx.expect(','); p = s.typed_operand(lx, fn)
            if s.opts.instrument_access: L.append('  __VF_ACCESS(%s, 1);' % p.c)
            L.append('  *%s = %s;' % (p.c, v.c))
        elif op == 'alloca':
            ty = s.mod.parse_type(lx)
            cn = define(res, PtrTy(ty))
            alloca_decls.append('  %s;' % em.ctype(ty, cn + '_mem'))
            L.append('  %s = &%s_mem;' % (cn, cn))
        elif op == 'phi':
            ty = s.mod.parse_type(lx)
            inc = []
            while True:
                lx.expect('[')
                # value token(s) until ','
                toks = []
                depth = 0
                while True:
                    k2, v2 = lx.peek()
                    if v2 == ',' and depth == 0: break
                    if v2 in ('(', '['): depth += 1
                    if v2 in (')', ']'): depth -= 1
                    toks.append(v2); lx.next()
                lx.expect(',')
                pred = lx.next()[1][1:].strip('"')
                lx.expect(']')
                inc.append((' '.join(toks), pred))
                if not lx.accept(','): break
            cn = define(res, ty)
            deferred_phi.append((curblk, cn, ty, inc))
        elif op == 'select':
            c = s.typed_operand(lx, fn); lx.expect(','); a = s.typed_operand(lx, fn); lx.expect(','); b = s.typed_operand(lx, fn)
            setres(a.ty, '(%s ? %s : %s)' % (c.c, a.c, b.c))
        elif op == 'freeze':
            v = s.typed_operand(lx, fn); setres(v.ty, v.c)
        elif op == 'extractvalue':
            v = s.typed_operand(lx, fn); expr = v.c; cur = v.ty
            while lx.accept(','):
                k2 = int(lx.next()[1])
                if isinstance(cur, StructTy): expr += '.f%d' % k2; cur = cur.fields[k2]
                else: expr += '[%d]' % k2; cur = cur.el
            setres(cur, expr)
        elif op == 'insertvalue':
            agg = s.typed_operand(lx, fn); lx.expect(','); v = s.typed_operand(lx, fn)
            path = ''; cur = agg.ty
            while lx.accept(','):
                k2 = int(lx.next()[1])
                if isinstance(cur, StructTy): path += '.f%d' % k2; cur = cur.fields[k2]
                else: path += '[%d]' % k2; cur = cur.el
            cn = define(res, agg.ty)
            L.append('  %s = %s; %s%s = %s;' % (cn, agg.c, cn, path, v.c))
        elif op == 'br':
            if lx.peek()[1] == 'label':
                to = lbl(); L.append('  ' + edge(s.blk(to, f)))
            else:
                c = s.typed_operand(lx, fn); lx.expect(','); t = lbl(); lx.expect(','); e = lbl()
                L.append('  if (%s) { %s } else { %s }' % (c.c, edge(s.blk(t, f)), edge(s.blk(e, f))))
        elif op == 'switch':
            v = s.typed_operand(lx, fn); lx.expect(','); d = lbl(); lx.expect('[')
            cases = []
            while not lx.accept(']'):
                cv = s.typed_operand(lx, fn); lx.expect(','); cl = lbl(); cases.append((cv, cl))
            for cv, cl in cases:
                L.append('  if (%s == %s) { %s }' % (v.c, cv.c, edge(s.blk(cl, f))))
            L.append('  ' + edge(s.blk(d, f)))
        elif op == 'ret':
            if lx.peek()[1] == 'void': L.append('  return;')
            else:
                v = s.typed_operand(lx, fn); L.append('  return %s;' % v.c)
        elif op == 'unreachable':
            L.append('  __VF_UNREACHABLE();')
        elif op == 'call':
            while lx.peek()[1] in ('fastcc', 'ccc', 'coldcc', 'fast', 'nnan', 'ninf', 'nsz', 'arcp', 'contract', 'afn', 'reassoc'): lx.next()
            s.skip_param_attrs(lx)
            rty = s.mod.parse_type(lx)
            if isinstance(rty, FnTy): rty = rty.ret
            k2, callee = lx.next()
            lx.expect('(')
            args = []
            if not lx.accept(')'):
                while True:
                    if lx.peek()[1] == 'metadata':
                        # skip metadata args
                        while lx.peek()[1] not in (',', ')'): lx.next()
                        args.append(None)
                    else:
                        args.append(s.typed_operand(lx, fn))
                    if lx.accept(')'): break
                    lx.expect(',')
            if k2 == 'gname':
                cname = callee[1:].strip('"')
                expr = s.call_expr(cname, rty, args, f)
            else:
                expr = '%s(%s)' % (fn.local(callee[1:]), ', '.join(a.c for a in args))
            if expr is None:
                pass
            elif res is not None and not isinstance(rty, VoidTy):
                setres(rty, expr)
            else:
                L.append('  %s;' % expr)
        else:
            raise SyntaxError('unsupported instruction %r in %s: %s' % (op, f.name, raw[:160]))
        return L

    def blk(s, label, f):
        return label

    def call_expr(s, name, rty, args, f):
        em = s.em
        if name.startswith(INTRINSIC_SKIP): return None
        a = [x.c if x is not None else '0' for x in args]
        if name.startswith('llvm.memcpy.') or name.startswith('llvm.memmove.'):
            return s.mem_intrinsic('memcpy' if 'memcpy' in name else 'memmove', args, f)
        if name.startswith('llvm.memset.'):
            return s.mem_intrinsic('memset', args, f)
        m = re.match(r'llvm\.(umax|umin|smax|smin)\.i(\d+)', name)
        if m:
            opn, bits = m.group(1), int(m.group(2))
            sct = {8: 'int8_t', 16: 'int16_t', 32: 'int32_t', 64: 'int64_t'}[bits]
            cast = '(%s)' % sct if opn[0] == 's' else ''
            cmp_ = '>' if opn.endswith('max') else '<'
            return '((%s%s %s %s%s) ? %s : %s)' % (cast, a[0], cmp_, cast, a[1], a[0], a[1])
        if name.startswith('llvm.expect.'): return a[0]
        if name.startswith('llvm.trap'): return '__VF_UNREACHABLE()'
        if name.startswith('llvm.'):
            raise SyntaxError('unsupported intrinsic %s' % name)
        if name in ('__vf_assert', '__vf_check'):
            m = re.fullmatch(r'\(\(uint32_t\)(\d+)ULL\)', a[1])
            if m:
                return '__VF_%s(%s, %s, "%s id=%s")' % (name[5:].upper(), a[0], m.group(1), name, m.group(1))
        return '%s(%s)' % (s.fname(name), ', '.join(a))

    def mem_intrinsic(s, kind, args, f):
        # try to turn into a typed struct assignment
        em = s.em
        corg = getattr(s, 'cast_origin', {})
        def origin(v):
            return corg.get(v.c)
        n = args[2].c
        mnum = re.fullmatch(r'\(\(uint64_t\)(\d+)ULL\)', n)
        if mnum:
            N = int(mnum.group(1))
            if kind in ('memcpy', 'memmove'):
                d, r = s.region(args[0], N), s.region(args[1], N)
                if d and r and len(d) == len(r) and all(a[0] == b[0] and a[1] == b[1] for a, b in zip(d, r)):
                    if kind == 'memcpy' or True:
                        return '; '.join('%s = %s' % (a[2], b[2]) if type(a[3]) == type(b[3]) and not isinstance(a[3], PtrTy) else '%s = (%s)%s' % (a[2], em.ctype(a[3]), b[2]) for a, b in zip(d, r))
            if kind == 'memset' and args[1].c == '((uint8_t)0ULL)':
                d = s.region(args[0], N)
                if d:
                    return '; '.join('%s = 0' % a[2] for a in d)
        s.mem_fallbacks = getattr(s, 'mem_fallbacks', 0) + 1
        if kind == 'memset':
            return 'memset(%s, %s, %s)' % (args[0].c, args[1].c, args[2].c)
        return '%s(%s, %s, %s)' % (kind, args[0].c, args[1].c, args[2].c)

    # ---- whole module
    def emit(s):
        em = s.em
        out = []
        out.append('/* generated by ir2c.py -- do not edit */')
        out.append('#include <stdint.h>\n#include <stddef.h>\n#include <string.h>')
        out.append('#ifndef __VF_UNREACHABLE\n#define __VF_UNREACHABLE() __vf_unreachable()\n#endif')
        out.append('void __vf_unreachable(void);')
        out.append('void __vf_access(const void*, int);\n#define __VF_ACCESS(p, w) __vf_access((const void*)(p), (w))')
        out.append('void __vf_register_alloc(const void*);')
        out.append('#ifdef __CPROVER__\n#define __VF_ASSERT(c, id, msg) __CPROVER_assert((c), msg)\n#ifdef VF_CHECK_ASSUME\n#define __VF_CHECK(c, id, msg) __CPROVER_assume(c)\n#else\n#define __VF_CHECK(c, id, msg) __CPROVER_assert((c), msg)\n#endif\n#else\n#define __VF_ASSERT(c, id, msg) __vf_assert((c), (id))\n#define __VF_CHECK(c, id, msg) __vf_check((c), (id))\n#endif')
        out.append('#include <stdlib.h>')
        out.append('#ifdef __CPROVER__\n#define __VF_ALLOC_POST(p) __CPROVER_assume((p) != 0)\n#else\n#define __VF_ALLOC_POST(p) ((void)0)\n#endif')
        # struct forward decls
        allst = list(s.mod.structs.values()) + list(s.mod.lit_structs.values())
        # function bodies first (translation may create literal structs)
        fn_chunks = []
        for f in s.mod.funcs.values():
            if f.declared_only: continue
            fn_chunks.append(s.translate_fn(f))
        allst = list(s.mod.structs.values()) + list(s.mod.lit_structs.values())
        for st in allst:
            out.append('struct %s;' % em.struct_cname(st))
        # topo order by value containment
        done = set(); order = []
        def visit(t):
            if isinstance(t, StructTy):
                if id(t) in done or t.opaque or t.fields is None: return
                done.add(id(t))
                for fld in t.fields: visit(fld)
                order.append(t)
            elif isinstance(t, ArrTy): visit(t.el)
        for st in allst: visit(st)
        for st in order:
            flds = ' '.join('%s;' % em.ctype(ft, 'f%d' % i) for i, ft in enumerate(st.fields)) or 'char _empty;'
            out.append('struct %s%s { %s };' % ('__attribute__((packed)) ' if st.packed else '', em.struct_cname(st), flds))
            if st.fields:
                out.append('_Static_assert(sizeof(struct %s) == %d, "layout %s");' % (em.struct_cname(st), ty_size(st), em.struct_cname(st)))
        # globals
        for g, rest in s.mod.globals.items():
            out.append(s.emit_global(g, rest))
        # prototypes
        for f in s.mod.funcs.values():
            if f.name.startswith('llvm.'): continue
            params = ', '.join(em.ctype(t) for t, n in f.params) or 'void'
            out.append('%s;' % em.ctype(f.ret, '%s(%s)' % (s.fname(f.name), params)))
        for f in s.mod.funcs.values():
            if f.declared_only and f.name.startswith('_Z16__vf_alloc_array'):
                assert isinstance(f.ret, PtrTy) and len(f.params) == 1
                elt = em.ctype(f.ret.to)
                out.append('%s { %s = malloc(n * sizeof(%s)); __VF_ALLOC_POST(p); __vf_register_alloc(p); return p; }' % (
                    em.ctype(f.ret, '%s(uint64_t n)' % s.fname(f.name)), em.ctype(f.ret, 'p'), elt))
        for hdr, decls, body in fn_chunks:
            out.append('%s\n{' % hdr)
            out.extend(decls)
            out.extend(body)
            out.append('}')
        return '\n'.join(out) + '\n'

    def emit_global(s, g, rest):
        lx = Lexer(rest)
        while lx.peek()[1] in s.FN_PREFIX or lx.peek()[1] in ('global', 'constant', 'thread_local'):
            lx.next()
        ty = s.mod.parse_type(lx)
        init = ''
        k, v = lx.peek()
        if v is None or v == ',':
            decl = 'extern ' + s.em.ctype(ty, s.gname(g)) + ';'
            return decl
        class G: pass
        gfn = G(); gfn.local = lambda n: (_ for _ in ()).throw(KeyError(n))
        try:
            val = s.global_init(ty, lx, gfn)
        except Exception as e:
            raise SyntaxError('global init %s: %s' % (g, e))
        return '%s = %s;' % (s.em.ctype(ty, s.gname(g)), val)

    def global_init(s, ty, lx, gfn):
        k, v = lx.peek()
        if v == 'zeroinitializer':
            lx.next(); return '{0}'
        if v in ('undef', 'poison'):
            lx.next(); return '{0}'
        if isinstance(ty, StructTy) and v in ('{', '<{'):
            lx.next(); close = '}' if v == '{' else '}>'
            parts = []
            if not lx.accept(close):
                while True:
                    ft = s.mod.parse_type(lx); parts.append(s.global_init(ft, lx, gfn))
                    if lx.accept(close): break
                    lx.expect(',')
            return '{ %s }' % ', '.join(parts)
        if isinstance(ty, ArrTy) and v == '[':
            lx.next(); parts = []
            while True:
                ft = s.mod.parse_type(lx); parts.append(s.global_init(ft, lx, gfn))
                if lx.accept(']'): break
                lx.expect(',')
            return '{ %s }' % ', '.join(parts)
        if isinstance(ty, ArrTy) and k == 'str':
            lx.next()
            raw = v[2:-1]
            bs = re.sub(r'\\([0-9A-Fa-f]{2})', lambda m: chr(int(m.group(1), 16)), raw)
            return '{ %s }' % ', '.join(str(ord(c)) for c in bs)
        return s.const_val(ty, lx, gfn).c

def main():
    import argparse
    ap = argparse.ArgumentParser()
    ap.add_argument('ll'); ap.add_argument('-o', required=True); ap.add_argument('--instrument-access', action='store_true')
    a = ap.parse_args()
    t = Translator(open(a.ll).read(), a)
    t.parse()
    open(a.o, 'w').write(t.emit())

if __name__ == '__main__':
    main()
