#include <stdint.h>
#include <stdio.h>
void out3(uint64_t a, uint64_t b, uint64_t c) { printf("%llu %llu %llu\n", (unsigned long long)a, (unsigned long long)b, (unsigned long long)c); }
