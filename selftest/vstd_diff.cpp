// Differential self-test of the vstd contract model against libstdc++ (tools/vstd_selftest.sh): the same deterministic
// pseudo-random sequence of container operations runs (a) on the real standard library (g++, -DVF_REAL) and (b) on vstd
// through the same pipeline as the checks (clang -> IR -> ir2c -> C -> gcc); the printed traces must be identical.
// Covers the parts of the model whose ORDER semantics matter to the properties: multimap emplace / emplace_hint /
// extract+insert(node) among equal keys, upper_bound / lower_bound, --end(), list splice / erase ranges, try_emplace /
// insert_or_assign.
#include <algorithm>
#include <cstdint>
#include <iterator>
#include <list>
#include <map>
#include <unordered_map>
#include <utility>
#ifdef VF_REAL
#include <cstdio>
extern "C" void out3(uint64_t a, uint64_t b, uint64_t c) { printf("%llu %llu %llu\n", (unsigned long long)a, (unsigned long long)b, (unsigned long long)c); }
#else
extern "C" void out3(uint64_t a, uint64_t b, uint64_t c);
#endif
static uint64_t g_s;
static uint64_t rnd()
{
    g_s ^= g_s << 13; g_s ^= g_s >> 7; g_s ^= g_s << 17;
    return g_s;
}
#ifndef NMAX
#define NMAX 6
#endif
static void dump_mm(std::multimap<uint64_t, uint64_t>& m, uint64_t tag)
{
    uint64_t i = 0;
    for (auto it = m.begin(); it != m.end(); ++it, ++i) out3(tag, it->first, it->second);
    out3(tag, 999, m.size());
}
static void test_multimap(uint64_t steps)
{
    std::multimap<uint64_t, uint64_t> m;
    uint64_t serial = 0;
    for (uint64_t s = 0; s < steps; ++s)
    {
        uint64_t op = rnd() % 7, k = rnd() % 3, pos = rnd();
        if (m.size() >= NMAX) op = 3 + rnd() % 2;
        auto nth = [&](uint64_t p) { auto it = m.begin(); for (uint64_t i = 0, n = p % (m.size() + 1); i < n; ++i) ++it; return it; };
        if (op == 0) { m.emplace(k, ++serial); }
        else if (op == 1 || op == 2) { m.emplace_hint(nth(pos), k, ++serial); }
        else if (op == 3) { if (!m.empty()) { auto it = nth(pos); if (it == m.end()) it = std::prev(m.end()); m.erase(it); } }
        else if (op == 4) { if (!m.empty()) { auto it = nth(pos); if (it == m.end()) --it; auto nh = m.extract(it); nh.key() = k; auto r = (pos & 64) ? m.insert(nth(pos >> 8), std::move(nh)) : m.insert(std::move(nh)); out3(4, r->first, r->second); } }
        else if (op == 5) { auto u = m.upper_bound(k); auto l = m.lower_bound(k); out3(5, u == m.end() ? 77 : u->second, l == m.end() ? 77 : l->second); }
        else { if (!m.empty()) { auto it = std::prev(m.upper_bound(2)); out3(6, it->first, it->second); auto f = m.find(k); out3(6, f == m.end() ? 77 : f->first, m.count(k)); } }
        dump_mm(m, 100 + op);
    }
}
static void test_list(uint64_t steps)
{
    std::list<uint64_t> l;
    uint64_t serial = 0;
    for (uint64_t s = 0; s < steps; ++s)
    {
        uint64_t op = rnd() % 6, p1 = rnd(), p2 = rnd();
        if (l.size() >= NMAX) op = 2 + rnd() % 2;
        auto nth = [&](uint64_t p) { auto it = l.begin(); for (uint64_t i = 0, n = p % (l.size() + 1); i < n; ++i) ++it; return it; };
        if (op == 0) l.push_back(++serial);
        else if (op == 1) l.emplace(nth(p1), ++serial);
        else if (op == 2) { if (!l.empty()) { auto it = nth(p1); if (it == l.end()) --it; l.erase(it); } }
        else if (op == 3) { auto a = nth(p1), b = nth(p2); if (std::distance(l.begin(), a) > std::distance(l.begin(), b)) std::swap(a, b); l.erase(a, b); }
        else if (op == 4) { if (!l.empty()) { auto src = nth(p1); if (src == l.end()) --src; auto dst = nth(p2); l.splice(dst, l, src); } }
        else { auto f = std::find_if(l.cbegin(), l.cend(), [&](uint64_t x) { return x % 3 == p1 % 3; }); out3(25, f == l.cend() ? 77 : *f, l.empty() ? 0 : l.front() * 1000 + l.back()); }
        for (auto x : l) out3(200 + op, x, 0);
        out3(200 + op, 999, l.size());
    }
}
static void test_umap(uint64_t steps)
{
    std::unordered_map<uint64_t, uint64_t> u;
    u.reserve(NMAX);
    uint64_t serial = 0;
    for (uint64_t s = 0; s < steps; ++s)
    {
        uint64_t op = rnd() % 5, k = rnd() % 8;
        if (u.size() >= NMAX && op < 3 && u.find(k) == u.end()) op = 3;
        if (op == 0) { auto r = u.try_emplace(k, ++serial); out3(30, r.second, r.first->second); }
        else if (op == 1) { auto r = u.insert_or_assign(k, ++serial); out3(31, r.second, r.first->second); }
        else if (op == 2) { auto r = u.emplace(k, ++serial); out3(32, r.second, r.first->second); }
        else if (op == 3) { uint64_t er = u.erase(k); out3(33, er, u.size()); }
        else { auto f = u.find(k); out3(34, f == u.end() ? 77 : f->second, u.count(k)); }
        uint64_t sum = 0; for (uint64_t kk = 0; kk < 8; ++kk) { auto f = u.find(kk); if (f != u.end()) sum = sum * 31 + f->second + kk; }
        out3(35, sum, u.size());
    }
}
extern "C" int diff_main(uint64_t seed)
{
    g_s = seed * 2654435761u + 88172645463325252ull;
    test_multimap(DSTEPS);
    test_list(DSTEPS);
    test_umap(DSTEPS);
    return 0;
}
#ifdef VF_REAL
#include <cstdlib>
int main(int argc, char** argv) { return diff_main(argc > 1 ? strtoull(argv[1], nullptr, 10) : 1); }
#endif
