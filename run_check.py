#!/usr/bin/env python3
import sys
if '--setup' in sys.argv:
    sys.exit(0)
