#!/usr/bin/env python3
"""Per-property driver: regenerate the encoding from /repo, discharge the solver queries, lift/replay
counterexamples against the real build, write evidence/<id>.json.

usage: run_check.py C07 [--tier quick|thorough] [--replay PATH]
       run_check.py --setup
exit 0: property held on everything explored (KNOWN-FINDING lines possible); exit 1: VIOLATION line printed;
exit 2: tool error (never a verdict)."""
import json, os, sys, time, argparse, shutil, subprocess

ROOT = os.path.dirname(os.path.abspath(__file__))
sys.path.insert(0, ROOT)
from vlib import core, plan, checks  # noqa: E402


def setup(selftest=False):
    need = ['clang++-14', 'cbmc', 'g++', 'gcc', 'python3']
    missing = [t for t in need if shutil.which(t) is None]
    if missing:
        print('missing tools: ' + ' '.join(missing))
        return 2
    v = subprocess.run(['cbmc', '--version'], capture_output=True, text=True).stdout.strip()
    print('tools ok (cbmc %s)' % v)
    os.makedirs(os.path.join(ROOT, 'build'), exist_ok=True)
    os.makedirs(os.path.join(ROOT, 'evidence'), exist_ok=True)
    os.makedirs(os.path.join(ROOT, 'replays'), exist_ok=True)
    if selftest:
        # the vstd contract model against libstdc++ on pseudo-random operation sequences (order semantics of multimap
        # emplace / emplace_hint / node handles, list splice / range erase, ...): see selftest/vstd_diff.cpp
        env = dict(os.environ, STEPS='1500')
        p = subprocess.run([os.path.join(ROOT, 'tools', 'vstd_selftest.sh'), '1', '2', '3'], capture_output=True, text=True, env=env)
        print('\n'.join(l for l in p.stdout.splitlines() if l.startswith('seed')))
        if p.returncode != 0:
            print('TOOL-ERROR vstd self-test: the model disagrees with libstdc++\n' + (p.stdout + p.stderr)[-1500:])
            return 2
    return 0


def main():
    ap = argparse.ArgumentParser()
    ap.add_argument('prop', nargs='?')
    ap.add_argument('--setup', action='store_true')
    ap.add_argument('--tier', default=os.environ.get('VERIF_TIER', 'quick'), choices=['quick', 'thorough'])
    ap.add_argument('--replay')
    ap.add_argument('--only', help='restrict to containers (comma separated), for debugging')
    a = ap.parse_args()
    if a.setup:
        return setup(selftest=True)
    if not a.prop:
        ap.error('property id required')
    setup()
    seed = int(os.environ.get('VERIF_SEED', '0') or 0)
    pid = a.prop.upper()
    num = int(pid[1:])
    if a.replay:
        return checks.replay_file(pid, a.replay)
    t0 = time.time()
    try:
        rc = checks.run_property(num, a.tier, seed, only=a.only.split(',') if a.only else None)
    except core.ToolError as e:
        print('TOOL-ERROR property=%s %s' % (pid, str(e)[:2000]))
        return 2
    sys.stderr.write('%s %s: exit %d in %.0fs\n' % (pid, a.tier, rc, time.time() - t0))
    return rc


if __name__ == '__main__':
    sys.exit(main())
