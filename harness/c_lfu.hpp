#pragma once
// lfu_cache / lfuda_cache: list<element> partitioned at m_open_list_end + unordered_map<key, list iterator>
// + multimap<use count, list iterator>
#ifdef C_IS_LFUDA
#include "api_lfuda.hpp"
#else
#include "api_lfu.hpp"
#endif
#include "vf_inv.hpp"

template<class S>
static void install(C& c, S& s)
{
    auto& L = c.CL;
    auto& M = c.m_keyed_elements;
    vf_install_list_links(L, s);
    vf_install_umap(M, s, [&](decltype(c.m_open_list_end)& it) {
        it.i = s.u64();
        it.l = s.b() ? &L : nullptr;
    });
    vf_install_otab(
        c.m_lfu_list, s, [&](size_t& k) { k = s.u64(); },
        [&](decltype(c.m_open_list_end)& it) {
            it.i = s.u64();
            it.l = s.b() ? &L : nullptr;
        });
    c.m_used_size       = s.u64();
    c.m_open_list_end.i = s.u64();
#ifdef C_IS_LFUDA
    c.m_dynamic_age_tick = std::chrono::milliseconds{s.i64()};
#endif
    for (size_t i = 1; i <= HCAP; ++i)
    {
        auto& e              = L.m_pool[i].value;
        e.m_value            = VAL_T(s.u64());
        e.m_keyed_position.i = s.u64();
        e.m_keyed_position.m = s.b() ? &M : nullptr;
        e.m_lfu_position.i   = s.u64();
        e.m_lfu_position.m   = s.b() ? &c.m_lfu_list : nullptr;
#ifdef C_IS_LFUDA
        e.m_dynamic_age = i_tp(s.i64());
#endif
    }
}
static bool inv(C& c)
{
    const size_t n = HCAP;
    auto&        L = c.CL;
    auto&        M = c.m_keyed_elements;
    if (!vf_wf_list(L, n) || L.m_size != n)
        return false;
    if (!vf_wf_umap(M))
        return false;
    if (!vf_wf_otab(c.m_lfu_list, n, [](const size_t& a, const size_t& b) { return a < b; }))
        return false;
    if (c.m_used_size > n || M.m_size != c.m_used_size || c.m_lfu_list.m_size != c.m_used_size || !M.guaranteed(n))
        return false;
    if (c.m_open_list_end.l != &L || c.m_open_list_end.i != vf_list_at(L, c.m_used_size, n))
        return false;
#ifdef C_IS_LFUDA
    if (c.m_dynamic_age_tick.count() <= 0 || c.m_dynamic_age_tick.count() >= TMAX)
        return false;
    int64_t prev_age = 0;
#endif
    size_t cur = L.m_pool[0].next;
    for (size_t p = 0; p < n; ++p)
    {
        if (p < c.m_used_size)
        {
            auto& e = L.m_pool[cur].value;
            if (e.m_keyed_position.m != &M)
                return false;
            size_t ki = e.m_keyed_position.i;
            if (ki >= M.m_pool_n || !M.m_pool[ki].live)
                return false;
            auto& back = M.m_pool[ki].kv.second;
            if (back.l != &L || back.i != cur)
                return false;
            if (e.m_lfu_position.m != &c.m_lfu_list)
                return false;
            size_t li = e.m_lfu_position.i;
            if (li >= c.m_lfu_list.m_pool_n || !c.m_lfu_list.m_pool[li].live)
                return false;
            auto& lb = c.m_lfu_list.m_pool[li].kv.second;
            if (lb.l != &L || lb.i != cur)
                return false;
#ifndef C_IS_LFUDA
            if (c.m_lfu_list.m_pool[li].kv.first < 1) // lfu: a count starts at 1 and only grows (lfuda: aging can reach 0)
                return false;
#endif
#ifdef C_IS_LFUDA
            int64_t age = tp_i(e.m_dynamic_age);
            if (age < 0 || age > last_now)
                return false;
            if (age < prev_age) // the age list is ordered by time of last use / aging, oldest first
                return false;
            prev_age = age;
#endif
        }
        cur = L.m_pool[cur].next;
    }
    return true;
}
static void alpha(C& c, Abs& a)
{
    a_clear(a);
    auto& L  = c.CL;
    a.n      = c.m_used_size;
#ifdef C_IS_LFUDA
    a.tick = c.m_dynamic_age_tick.count();
#endif
    size_t t = c.m_lfu_list.m_first;
    for (size_t p = 0; p < HCAP; ++p)
    {
        if (p < a.n)
        {
            auto&  nd   = c.m_lfu_list.m_pool[t];
            size_t node = nd.kv.second.i;
            auto&  e    = L.m_pool[node].value;
            a.k[p]      = c.m_keyed_elements.m_pool[e.m_keyed_position.i].kv.first;
            a.v[p]      = val_u(e.m_value);
            a.cnt[p]    = nd.kv.first;
#ifdef C_IS_LFUDA
            a.age[p] = tp_i(e.m_dynamic_age);
            a.o2[p]  = vf_list_pos(L, node, HCAP);
#endif
            t = nd.next;
        }
    }
}
