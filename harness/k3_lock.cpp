// K3: lock-coverage of one public method of the thread_safe::yes instantiation, from an arbitrary invariant state.
// Compiled per (container, METHOD) with ir2c --instrument-access; hooks/lock_hooks.c is the monitor.
//   (a) every access to published container state happens under the container's mutex, or is a read of a
//       construction-time constant; (b) constants are never written; (c) one critical section per call, released at
//       return; (d) the mutex taken is the container's own; (e) the locked methods do take it.
#include CONT_HDR
// methods 24..27 are the iterator-pair overloads of 20..23 (fifo_cache only, see ranges.hpp)
#if METHOD >= 24 && METHOD <= 27
#define RANGE_ITER_FORM 1
#define METHOD_EFF (METHOD - 4)
#else
#define METHOD_EFF METHOD
#endif
#include "clauses.hpp"
#include "exec.hpp"
#include "ranges.hpp"
#ifndef INV_PRE
#define INV_PRE(c) inv(c)
#endif
int64_t last_now;
int64_t cfg_ttl = 100, cfg_tick = 5;
extern "C" {
void __vf_publish(const void* obj);
void __vf_freeze(const void* p, uint64_t len);
void __vf_expect_mutex(const void* m);
void __vf_call_begin(int id);
void __vf_call_end(int id);
int  __vf_acquisitions(void);
}
#define M_SIZE 10
#define M_EMPTY 11
#define M_CAPACITY 12
#define M_INSERT_RANGE 20
#define M_ERASE_RANGE 21
#define M_FIND_RANGE 22
#define M_FIND_RANGE_FILL 23

extern "C" int harness()
{
    last_now = 0;
    DECL_C(c);
    last_now = nondet_i64();
    __vf_assume(last_now >= 0 && last_now < TMAX);
    SrcNondet s;
    install(c, s);
    __vf_assume(INV_PRE(c));
    // construction-time constants (read without the lock by capacity()): the size of the slot vector, which no member
    // function ever changes.  The node lists of fifo / lfu / lfuda are NOT constants in this sense: splice() is a non-const
    // member function and libstdc++'s implementation increments and decrements the list's size field even for a same-list
    // splice, so a capacity() that reads list::size() must hold the lock like every other method.
#if T_CAPPED && T_POLICY != P_FIFO && T_POLICY != P_LFU && T_POLICY != P_LFUDA
    __vf_freeze(&c.m_elements.m_size, sizeof(size_t));
#endif
    __vf_expect_mutex(&c.m_lock);
    __vf_publish(&c);
    // symbolic arguments
    Ev e[RMAX];
    int64_t now = nondet_i64();
    __vf_assume(now >= last_now && now < TMAX);
    for (int i = 0; i < RMAX; ++i)
    {
        e[i].op = METHOD; e[i].now = now;
        e[i].k = nondet_u64(); e[i].v = nondet_u64();
        e[i].a = nondet_u8(); __vf_assume(e[i].a >= 1 && e[i].a <= 3);
        e[i].pk = nondet_bool();
        e[i].ttl = nondet_i64(); __vf_assume(e[i].ttl >= 0 && e[i].ttl < TMAX);
    }
    // the range length is concrete per query (a symbolic length would make the result vector's allocation size symbolic)
    const size_t n = RLEN;
    __vf_set_now(now);
    uint64_t sink = 0;
    Res      r, out[RMAX];
    bool     ko = true;
    __vf_call_begin(METHOD);
#if METHOD == M_SIZE
    sink = c.size();
#elif METHOD == M_EMPTY
    sink = c.empty();
#elif METHOD == M_CAPACITY
#if T_CAPPED
    sink = c.capacity();
#endif
#elif METHOD_EFF == M_INSERT_RANGE
    sink = x_insert_range(c, e, n, e[0].a);
#elif METHOD_EFF == M_ERASE_RANGE
    sink = x_erase_range(c, e, n);
#elif METHOD_EFF == M_FIND_RANGE
    sink = x_find_range(c, e, n, e[0].pk, out, &ko);
#elif METHOD_EFF == M_FIND_RANGE_FILL
    x_find_range_fill(c, e, n, e[0].pk, out, &ko);
#else
    // single-key methods, clean_expired_values, dynamically_age, clear, update_ttl: exec_call without the observers
    {
        const Ev& ev = e[0];
        const bool pk = T_PEEK ? ev.pk : false;
        switch (METHOD)
        {
            case OP_INSERT: sink = x_insert(c, ev.k, ev.v, ev.a, ev.ttl); break;
            case OP_ERASE: sink = x_erase(c, ev.k); break;
            case OP_FIND: x_find(c, ev.k, pk, r); sink = r.ok; break;
#if T_POLICY == P_LFU || T_POLICY == P_LFUDA
            case OP_FIND_PLAIN: x_find_plain(c, ev.k, pk, r); sink = r.ok; break;
#endif
#if T_HAS_CLEAN
            case OP_CLEAN: sink = c.clean_expired_values(); break;
#endif
#if T_HAS_AGE
            case OP_AGE: sink = c.dynamically_age(); break;
#endif
#if T_HAS_CLEAR
            case OP_CLEAR: c.clear(); break;
#endif
#if T_HAS_UPDTTL
            case OP_UPDTTL: c.update_ttl(std::chrono::milliseconds{ev.ttl}); break;
#endif
            default: break;
        }
    }
#endif
    __vf_call_end(METHOD);
#if METHOD != M_CAPACITY
    // (e) every method other than capacity() (which reads a constant) synchronises: it took the mutex exactly once
    VF_P(7, 1, __vf_acquisitions() == 1);
#endif
    VF_REACH(1);
    return (int)sink;
}
