#pragma once
#define C_IS_UTSET 1
#include "c_utmap.hpp"
