#pragma once
#define C_IS_UTLRU 1
#include "api_tlru.hpp"
