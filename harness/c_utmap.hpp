#pragma once
// ut_map / ut_set: std::map<key, keyed_element{[value], ttl iterator}> + list<ttl_element{deadline, map iterator}>
// HCAP here is the bound on the number of residents in the pre-state (the containers have no capacity).
#include <optional>
#include <cappuccino/allow.hpp>
#include <cappuccino/lock.hpp>
#include <cappuccino/peek.hpp>
#ifdef C_IS_UTSET
#include <cappuccino/ut_set.hpp>
#define T_NAME "utset"
#define T_VALUE 0
#define T_HAS_CLEAR 0
using C = cappuccino::ut_set<uint64_t, cappuccino::thread_safe::TS>;
#else
#include <cappuccino/ut_map.hpp>
#define T_NAME "utmap"
#define T_VALUE 1
#define T_HAS_CLEAR 1
using C = cappuccino::ut_map<uint64_t, uint64_t, cappuccino::thread_safe::TS>;
#endif
#include "vf_inv.hpp"
#include "abs.hpp"
#define T_POLICY P_NONE
#define T_TTL 2
#define T_PEEK 0
#define T_CAPPED 0
#define T_PURGE 1
#define T_HAS_CLEAN 1
#define T_HAS_AGE 0
#define T_HAS_UPDTTL 0
#define DECL_C(c) C c(std::chrono::milliseconds{100})
using TP = std::chrono::steady_clock::time_point;
static inline int64_t tp_i(TP t) { return t.time_since_epoch().count(); }
static inline TP      i_tp(int64_t x) { return TP(std::chrono::steady_clock::duration(x)); }
extern int64_t        last_now;

template<class S>
static void install(C& c, S& s)
{
    auto& L         = c.m_ttl_list;
    auto& M         = c.m_keyed_elements;
    c.m_uniform_ttl = std::chrono::milliseconds{s.i64()};
    vf_install_list_links(L, s);
    for (size_t i = 1; i < L.m_pool_n; ++i)
    {
        auto& te                       = L.m_pool[i].value;
        te.m_expire_time               = i_tp(s.i64());
        te.m_keyed_elements_position.i = s.u64();
        te.m_keyed_elements_position.m = s.b() ? &M : nullptr;
    }
    vf_install_otab(
        M, s, [&](uint64_t& k) { k = s.u64(); },
        [&](typename C::keyed_element& ke) {
#ifndef C_IS_UTSET
            ke.m_value = s.u64();
#endif
            ke.m_ttl_position.i = s.u64();
            ke.m_ttl_position.l = s.b() ? &L : nullptr;
        });
}
// maxn: HCAP for the pre-state, HCAP + 1 after a call (an insert may add one entry)
static bool inv_n(C& c, size_t maxn)
{
    auto& L = c.m_ttl_list;
    auto& M = c.m_keyed_elements;
    if (!vf_wf_list(L, maxn))
        return false;
    if (!vf_wf_otab(M, maxn, [](const uint64_t& a, const uint64_t& b) { return a < b; }, true))
        return false;
    if (L.m_size != M.m_size)
        return false;
    int64_t ttl = c.m_uniform_ttl.count();
    if (ttl < 0 || ttl >= TMAX)
        return false;
    size_t  t     = L.m_pool[0].next;
    int64_t prevd = 0;
    for (size_t p = 0; p < maxn; ++p)
    {
        if (p >= L.m_size)
            break;
        auto& te = L.m_pool[t].value;
        if (te.m_keyed_elements_position.m != &M)
            return false;
        size_t ki = te.m_keyed_elements_position.i;
        if (ki >= M.m_pool_n || !M.m_pool[ki].live)
            return false;
        auto& back = M.m_pool[ki].kv.second.m_ttl_position;
        if (back.l != &L || back.i != t)
            return false;
        int64_t d = tp_i(te.m_expire_time);
        // sorted by deadline; no deadline beyond (latest clock reading seen) + ttl: this is what keeps
        // appending at the tail sorted under a monotone clock
        if (d < prevd || d < 0 || d > last_now + ttl)
            return false;
        prevd = d;
        t     = L.m_pool[t].next;
    }
    return true;
}
static bool inv(C& c) { return inv_n(c, HCAP + 1); }
#define INV_PRE(c) inv_n(c, HCAP)
static void alpha(C& c, Abs& a)
{
    a_clear(a);
    auto& L  = c.m_ttl_list;
    auto& M  = c.m_keyed_elements;
    a.n      = L.m_size;
    a.ttl    = c.m_uniform_ttl.count();
    size_t t = L.m_pool[0].next;
    for (size_t p = 0; p < AMAX; ++p)
        if (p < a.n)
        {
            auto& te = L.m_pool[t].value;
            auto& nd = M.m_pool[te.m_keyed_elements_position.i];
            a.k[p]   = nd.kv.first;
#ifndef C_IS_UTSET
            a.v[p] = nd.kv.second.m_value;
#endif
            a.d[p] = tp_i(te.m_expire_time);
            t      = L.m_pool[t].next;
        }
}
static bool x_insert(C& c, uint64_t k, uint64_t v, uint8_t a, int64_t)
{
#ifdef C_IS_UTSET
    return c.insert(k, (cappuccino::allow)a);
#else
    return c.insert(k, v, (cappuccino::allow)a);
#endif
}
static bool x_erase(C& c, uint64_t k) { return c.erase(k); }
static void x_find(C& c, uint64_t k, bool, Res& r)
{
#ifdef C_IS_UTSET
    r.ok  = c.find(k);
    r.val = 0;
#else
    auto o = c.find(k);
    r.ok   = o.has_value();
    r.val  = r.ok ? *o : 0;
#endif
    r.cnt = 0;
}
