#pragma once
// ut_map / ut_set: std::map<key, keyed_element{[value], ttl iterator}> + list<ttl_element{deadline, map iterator}>
// HCAP here is the bound on the number of residents in the pre-state (the containers have no capacity).
#ifdef C_IS_UTSET
#include "api_utset.hpp"
#else
#include "api_utmap.hpp"
#endif
#include "vf_inv.hpp"

template<class S>
static void install(C& c, S& s)
{
    auto& L         = c.m_ttl_list;
    auto& M         = c.m_keyed_elements;
    c.m_uniform_ttl = std::chrono::milliseconds{s.i64()};
    vf_install_list_links(L, s);
    for (size_t i = 1; i < L.m_pool_n; ++i)
    {
        auto& te                       = L.m_pool[i].value;
        te.m_expire_time               = i_tp(s.i64());
        te.m_keyed_elements_position.i = s.u64();
        te.m_keyed_elements_position.m = s.b() ? &M : nullptr;
    }
    vf_install_otab(
        M, s, [&](uint64_t& k) { k = s.u64(); },
        [&](typename C::keyed_element& ke) {
#ifndef C_IS_UTSET
            ke.m_value = VAL_T(s.u64());
#endif
            ke.m_ttl_position.i = s.u64();
            ke.m_ttl_position.l = s.b() ? &L : nullptr;
        });
}
// maxn: HCAP for the pre-state, HCAP + 1 after a call (an insert may add one entry)
static bool inv_n(C& c, size_t maxn)
{
    auto& L = c.m_ttl_list;
    auto& M = c.m_keyed_elements;
    if (!vf_wf_list(L, maxn))
        return false;
    if (!vf_wf_otab(M, maxn, [](const uint64_t& a, const uint64_t& b) { return a < b; }, true))
        return false;
    if (L.m_size != M.m_size)
        return false;
    int64_t ttl = c.m_uniform_ttl.count();
    if (ttl < 0 || ttl >= TMAX)
        return false;
    size_t  t     = L.m_pool[0].next;
    int64_t prevd = 0;
    for (size_t p = 0; p < maxn; ++p)
    {
        if (p >= L.m_size)
            break;
        auto& te = L.m_pool[t].value;
        if (te.m_keyed_elements_position.m != &M)
            return false;
        size_t ki = te.m_keyed_elements_position.i;
        if (ki >= M.m_pool_n || !M.m_pool[ki].live)
            return false;
        auto& back = M.m_pool[ki].kv.second.m_ttl_position;
        if (back.l != &L || back.i != t)
            return false;
        int64_t d = tp_i(te.m_expire_time);
        // sorted by deadline; no deadline beyond (latest clock reading seen) + ttl: this is what keeps
        // appending at the tail sorted under a monotone clock
        if (d < prevd || d < 0 || d > last_now + ttl)
            return false;
        prevd = d;
        t     = L.m_pool[t].next;
    }
    return true;
}
static bool inv(C& c) { return inv_n(c, HCAP + 1); }
#define INV_PRE(c) inv_n(c, HCAP)
static void alpha(C& c, Abs& a)
{
    a_clear(a);
    auto& L  = c.m_ttl_list;
    auto& M  = c.m_keyed_elements;
    a.n      = L.m_size;
    a.ttl    = c.m_uniform_ttl.count();
    size_t t = L.m_pool[0].next;
    for (size_t p = 0; p < AMAX; ++p)
        if (p < a.n)
        {
            auto& te = L.m_pool[t].value;
            auto& nd = M.m_pool[te.m_keyed_elements_position.i];
            a.k[p]   = nd.kv.first;
#ifndef C_IS_UTSET
            a.v[p] = val_u(nd.kv.second.m_value);
#endif
            a.d[p] = tp_i(te.m_expire_time);
            t      = L.m_pool[t].next;
        }
}
