#pragma once
// Range forms of the public API, container independent (used by K3 lock coverage and K5 range == singles).
// Requires api_<container>.hpp and clauses.hpp (Ev, Res).
#include <vector>
#ifndef RMAX
#define RMAX 3
#endif
template<class T, int M>
struct Rng
{
    T        a[M];
    size_t   n = 0;
    T*       begin() { return a; }
    T*       end() { return a + n; }
    const T* begin() const { return a; }
    const T* end() const { return a + n; }
    size_t   size() const { return n; }
};
struct KV
{
    uint64_t first;
    VAL_T    second;
};
struct TKV
{
    std::chrono::milliseconds ttl;
    uint64_t                  k;
    VAL_T                     v;
};
// fifo_cache also exposes the iterator-pair overloads (insert(b,e,allow), erase(b,e), find(b,e[,distance]), find_range_fill(b,e));
// RANGE_ITER_FORM=1 (or g_range_iter in the replay program) routes the range adapters below through them, with find's distance
// argument left at its default.
#ifndef T_ITER_FORMS
#define T_ITER_FORMS 0
#endif
#ifndef RANGE_ITER_FORM
#define RANGE_ITER_FORM 0
#endif
#ifdef RANGE_ITER_RUNTIME
static bool g_range_iter = false;
#define X_IT g_range_iter
#else
#define X_IT (RANGE_ITER_FORM)
#endif
#if T_PEEK_KIND == 1
#define X_PEEK_ARG(pk) , ((pk) ? cappuccino::peek::yes : cappuccino::peek::no)
#elif T_PEEK_KIND == 2
#define X_PEEK_ARG(pk) , (pk)
#else
#define X_PEEK_ARG(pk)
#endif

static inline size_t x_insert_range(C& c, const Ev* e, size_t n, uint8_t a)
{
#if T_TTL == 1
    Rng<TKV, RMAX> r;
    for (size_t i = 0; i < n; ++i) { r.a[i].ttl = std::chrono::milliseconds{e[i].ttl}; r.a[i].k = e[i].k; r.a[i].v = VAL_T(e[i].v); }
#elif !T_VALUE
    Rng<uint64_t, RMAX> r;
    for (size_t i = 0; i < n; ++i) r.a[i] = e[i].k;
#else
    Rng<KV, RMAX> r;
    for (size_t i = 0; i < n; ++i) { r.a[i].first = e[i].k; r.a[i].second = VAL_T(e[i].v); }
#endif
    r.n = n;
#if T_ITER_FORMS
    if (X_IT) return c.insert(r.begin(), r.end(), (cappuccino::allow)a);
#endif
    return c.insert_range(r, (cappuccino::allow)a);
}
static inline size_t x_erase_range(C& c, const Ev* e, size_t n)
{
    Rng<uint64_t, RMAX> r;
    for (size_t i = 0; i < n; ++i) r.a[i] = e[i].k;
    r.n = n;
#if T_ITER_FORMS
    if (X_IT) return c.erase(r.begin(), r.end());
#endif
    return c.erase_range(r);
}
// returns the number of results; out[i] = result i; *keys_ok = every result carries its input key, in input order
static inline size_t x_find_range(C& c, const Ev* e, size_t n, bool pk, Res* out, bool* keys_ok)
{
    (void)pk;
    Rng<uint64_t, RMAX> r;
    for (size_t i = 0; i < n; ++i) r.a[i] = e[i].k;
    r.n      = n;
#if T_ITER_FORMS
    auto res = X_IT ? c.find(r.begin(), r.end()) : c.find_range(r X_PEEK_ARG(pk));
#else
    auto res = c.find_range(r X_PEEK_ARG(pk));
#endif
    *keys_ok = true;
    size_t m = res.size();
    for (size_t i = 0; i < RMAX; ++i)
        if (i < m)
        {
            if (i >= n || res[i].first != e[i].k) *keys_ok = false;
#if T_VALUE
            out[i].ok  = res[i].second.has_value();
            out[i].val = out[i].ok ? val_u(*res[i].second) : 0;
#else
            out[i].ok  = res[i].second;
            out[i].val = 0;
#endif
        }
    return m;
}
static inline void x_find_range_fill(C& c, const Ev* e, size_t n, bool pk, Res* out, bool* keys_ok)
{
    (void)pk;
#if T_VALUE
    Rng<std::pair<uint64_t, std::optional<VAL_T>>, RMAX> r;
#else
    Rng<std::pair<uint64_t, bool>, RMAX> r;
#endif
    // The caller's slots need not be empty: element i arrives pre-filled with e[i].v (ut_set: true) when bit 0 of e[i].a is
    // set (a container re-used from an earlier poll) and empty otherwise; either way the call must overwrite it.
    for (size_t i = 0; i < n; ++i)
    {
        r.a[i].first = e[i].k;
#if T_VALUE
        if (e[i].a & 1) r.a[i].second = VAL_T(e[i].v);
#else
        r.a[i].second = (e[i].a & 1) != 0;
#endif
    }
    r.n = n;
#if T_ITER_FORMS
    if (X_IT) c.find_range_fill(r.begin(), r.end());
    else
#endif
        c.find_range_fill(r X_PEEK_ARG(pk));
    *keys_ok = true;
    for (size_t i = 0; i < RMAX; ++i)
        if (i < n)
        {
            if (r.a[i].first != e[i].k) *keys_ok = false;
#if T_VALUE
            out[i].ok  = r.a[i].second.has_value();
            out[i].val = out[i].ok ? val_u(*r.a[i].second) : 0;
#else
            out[i].ok  = r.a[i].second;
            out[i].val = 0;
#endif
        }
}
