#pragma once
#include "api_common.hpp"
#ifndef T_RATIO4
#define T_RATIO4 2 /* lfuda ratio = T_RATIO4 / 4 */
#endif
#ifdef C_IS_LFUDA
#include <cappuccino/lfuda_cache.hpp>
#define CL m_dynamic_age_list
#define T_NAME "lfuda"
#define T_POLICY P_LFUDA
#define T_HAS_AGE 1
using C = cappuccino::lfuda_cache<uint64_t, VAL_T, cappuccino::thread_safe::TS>;
#define DECL_C(c) C c(HCAP, std::chrono::milliseconds{cfg_tick}, T_RATIO4 / 4.0f, cfg_mlf)
#else
#include <cappuccino/lfu_cache.hpp>
#define CL m_open_list
#define T_NAME "lfu"
#define T_POLICY P_LFU
#define T_HAS_AGE 0
using C = cappuccino::lfu_cache<uint64_t, VAL_T, cappuccino::thread_safe::TS>;
#define DECL_C(c) C c(HCAP, cfg_mlf)
#endif
#define T_TTL 0
#define T_PEEK 1
#define T_PEEK_KIND 2
#define T_CAPPED 1
#define T_PURGE 0
#define T_HAS_CLEAN 0
#define T_HAS_CLEAR 0
#define T_HAS_UPDTTL 0
#ifdef C_IS_LFUDA
// states the replay's state builder can reach directly: every count at least 1 (a count of 0 needs an earlier aging pass,
// which the two-call lifting supplies as the first call)
#define BUILDER_OK(pre) builder_ok(pre)
static inline bool builder_ok(const Abs& a)
{
    for (size_t p = 0; p < AMAX; ++p)
        if (p < a.n && a.cnt[p] < 1)
            return false;
    return true;
}
#endif
// value-range bound of the claim: use counts below 2^16 (an assumption on the pre-state, never an invariant conjunct)
#define ASSUME_BOUNDS(c, pre)                                                                                          \
    for (size_t p_ = 0; p_ < AMAX; ++p_)                                                                               \
    __vf_assume((pre).cnt[p_] < (1u << 16))
static bool x_insert(C& c, uint64_t k, uint64_t v, uint8_t a, int64_t) { return c.insert(k, VAL_T(v), (cappuccino::allow)a); }
static bool x_erase(C& c, uint64_t k) { return c.erase(k); }
static void x_find(C& c, uint64_t k, bool pk, Res& r)
{
    auto o = c.find_with_use_count(k, pk);
    r.ok   = o.has_value();
    r.val  = r.ok ? val_u((*o).first) : 0;
    r.cnt  = r.ok ? (*o).second : 0;
}
static void x_find_plain(C& c, uint64_t k, bool pk, Res& r)
{
    auto o = c.find(k, pk);
    r.ok   = o.has_value();
    r.val  = r.ok ? val_u(*o) : 0;
    r.cnt  = 0;
}
#ifdef VF_REAL
template<class NodeIt>
static uint64_t key_of_node(C& c, NodeIt node, size_t p)
{
    for (auto it = c.m_keyed_elements.begin(); it != c.m_keyed_elements.end(); ++it)
        if (it->second == node)
            return it->first;
    return 0xDEAD000000000000ULL + p;
}
static void alpha_real(C& c, Abs& a)
{
    a_clear(a);
    a.n = c.m_used_size;
#ifdef C_IS_LFUDA
    a.tick = c.m_dynamic_age_tick.count();
#endif
    auto it = c.m_lfu_list.begin();
    for (size_t p = 0; p < HCAP && p < a.n && it != c.m_lfu_list.end(); ++p, ++it)
    {
        auto  node = it->second; // list nodes are never freed: dereferencing is safe
        auto& e    = *node;
        a.k[p]     = key_of_node(c, node, p);
        a.v[p] = val_u(e.m_value);
        a.cnt[p]   = it->first;
#ifdef C_IS_LFUDA
        a.age[p] = tp_i(e.m_dynamic_age);
        a.o2[p]  = pos_of(c.CL.begin(), c.CL.end(), node, HCAP);
#endif
    }
}
#endif
