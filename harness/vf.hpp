// Verification-harness primitives shared by every harness (CBMC build and native build).
#pragma once
#include <stddef.h>
#include <stdint.h>
extern "C" {
uint64_t nondet_u64(void);
uint8_t  nondet_u8(void);
int64_t  nondet_i64(void);
bool     nondet_bool(void);
float    nondet_float(void);
void     __vf_assert(bool c, int id); // property assertion (ir2c turns it into __CPROVER_assert with the id in the text)
void     __vf_assume(bool c);
void     __vf_set_now(int64_t t);     // model steady_clock reading
}
#ifndef PROP
#define PROP 0
#endif
// Property-tagged assertion.  A query is compiled for exactly one property (-DPROP=n); the
// clauses of all other properties are compiled out, so every query has its own obligations.
// PROP==0 is the inductiveness of the representation invariant, 99 is the vacuity witness.
// (The replay on the real build selects the property at run time instead.)
#ifdef VF_RUNTIME_PROP
extern int g_prop;
#define VF_PROP_SEL g_prop
#else
#define VF_PROP_SEL PROP
#endif
#define VF_P(p, n, cond)                                                                                               \
    do                                                                                                                 \
    {                                                                                                                  \
        if (VF_PROP_SEL == (p))                                                                                        \
            __vf_assert((cond), (p)*1000 + (n));                                                                       \
    } while (0)
// reachability witness: in the -DPROP=99 twin each VF_REACH must come back *violated*
#define VF_REACH(n) VF_P(99, n, false)

#define P_LRU 1
#define P_MRU 2
#define P_FIFO 3
#define P_LFU 4
#define P_LFUDA 5
#define P_RR 6
#define P_NONE 7
#define OP_INSERT 0
#define OP_ERASE 1
#define OP_FIND 2
#define OP_CLEAN 3
#define OP_AGE 4
#define OP_CLEAR 5
#define OP_UPDTTL 6
#define OP_FIND_PLAIN 7 /* lfu/lfuda: find() (OP_FIND uses find_with_use_count) */

static const size_t  NPOS = ~(size_t)0;
static const int64_t TMAX = (int64_t)1 << 40; // bound on clock readings and TTLs (ticks)

// value sources used to install a symbolic state into a container
struct SrcNondet
{
    uint64_t u64() { return nondet_u64(); }
    int64_t  i64() { return nondet_i64(); }
    bool     b() { return nondet_bool(); }
};
template<int MAXW>
struct SrcRec
{
    uint64_t w[MAXW];
    size_t   n = 0;
    uint64_t u64()
    {
        uint64_t x = nondet_u64();
        w[n++]     = x;
        return x;
    }
    int64_t i64() { return (int64_t)u64(); }
    bool    b() { return (u64() & 1) != 0; }
};
struct SrcPlay
{
    const uint64_t* w;
    size_t          n = 0;
    uint64_t        u64() { return w[n++]; }
    int64_t         i64() { return (int64_t)u64(); }
    bool            b() { return (u64() & 1) != 0; }
};
