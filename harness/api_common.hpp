#pragma once
// Part of every container description that uses only the public std API, so that it compiles both against
// the vstd model (CBMC / ir2c builds) and against the real libstdc++ (replay on the real build, -DVF_REAL).
#include <optional>
#include <chrono>
#ifdef VF_REAL /* some headers rely on includes made by their siblings; the real build includes them all up front */
#include <atomic>
#include <list>
#include <map>
#include <mutex>
#include <numeric>
#include <random>
#include <string>
#include <unordered_map>
#include <vector>
#endif
#include <cappuccino/allow.hpp>
#include <cappuccino/lock.hpp>
#include <cappuccino/peek.hpp>
#include "vf.hpp"
#include "abs.hpp"
using TP = std::chrono::steady_clock::time_point;
#ifdef VF_REAL
// real build: steady_clock counts nanoseconds; the virtual clock of a replay advances in whole ticks of 1 ms
static inline int64_t tp_i(TP t) { return t.time_since_epoch().count() / 1000000; }
#else
static inline int64_t tp_i(TP t) { return t.time_since_epoch().count(); }
static inline TP      i_tp(int64_t x) { return TP(std::chrono::steady_clock::duration(x)); }
#endif
extern int64_t last_now;
extern int64_t cfg_ttl;  // constructor argument: uniform ttl (utlru, ut_map, ut_set), ticks
extern int64_t cfg_tick; // constructor argument: lfuda dynamic age tick, ticks
template<class It, class End>
static inline size_t pos_of(It b, End e, It x, size_t maxn)
{
    size_t p = 0;
    for (It it = b; it != e && p <= maxn; ++it, ++p)
        if (it == x)
            return p;
    return NPOS;
}
