#pragma once
// Part of every container description that uses only the public std API, so that it compiles both against
// the vstd model (CBMC / ir2c builds) and against the real libstdc++ (replay on the real build, -DVF_REAL).
#include <optional>
#include <chrono>
#ifdef VF_REAL /* some headers rely on includes made by their siblings; the real build includes them all up front */
#include <atomic>
#include <list>
#include <map>
#include <mutex>
#include <numeric>
#include <random>
#include <string>
#include <unordered_map>
#include <vector>
#endif
#include <cappuccino/allow.hpp>
#include <cappuccino/lock.hpp>
#include <cappuccino/peek.hpp>
#include "vf.hpp"
#include "abs.hpp"
// ---- value type of the instantiation under check: uint64_t, or (C08, -DVAL_COUNTED) an instance-counting type with a
// user-written constructor / copy / move / assignment / destructor and a magic word against use-after-destroy
#ifdef VAL_COUNTED
extern "C" {
extern int64_t g_live; // instances alive
extern int64_t g_bad;  // operations on an instance that is not alive (double destroy, use after destroy, use of raw storage)
}
struct Counted
{
    uint64_t x;
    uint32_t magic;
    Counted() : x(0), magic(0xC0FFEEu) { ++g_live; }
    explicit Counted(uint64_t v) : x(v), magic(0xC0FFEEu) { ++g_live; }
    Counted(const Counted& o) : x(o.x), magic(0xC0FFEEu)
    {
        if (o.magic != 0xC0FFEEu) ++g_bad;
        ++g_live;
    }
    Counted(Counted&& o) : x(o.x), magic(0xC0FFEEu)
    {
        if (o.magic != 0xC0FFEEu) ++g_bad;
        o.x = 0xDEADBEEFDEADBEEFull; // a moved-from value is poisoned: storing or returning it afterwards is visible
        ++g_live;
    }
    Counted& operator=(const Counted& o)
    {
        if (magic != 0xC0FFEEu || o.magic != 0xC0FFEEu) ++g_bad;
        x = o.x;
        return *this;
    }
    Counted& operator=(Counted&& o)
    {
        if (magic != 0xC0FFEEu || o.magic != 0xC0FFEEu) ++g_bad;
        x = o.x;
        if (&o != this) o.x = 0xDEADBEEFDEADBEEFull;
        return *this;
    }
    ~Counted()
    {
        if (magic != 0xC0FFEEu) ++g_bad;
        magic = 0xDEADu;
        --g_live;
    }
};
#define VAL_T Counted
static inline uint64_t val_u(const Counted& c) { return c.x; }
#else
#define VAL_T uint64_t
static inline uint64_t val_u(uint64_t v) { return v; }
#endif
using TP = std::chrono::steady_clock::time_point;
#ifdef VF_REAL
// real build: steady_clock counts nanoseconds; the virtual clock of a replay advances in whole ticks of 1 ms
static inline int64_t tp_i(TP t) { return t.time_since_epoch().count() / 1000000; }
#else
static inline int64_t tp_i(TP t) { return t.time_since_epoch().count(); }
static inline TP      i_tp(int64_t x) { return TP(std::chrono::steady_clock::duration(x)); }
#endif
extern int64_t last_now;
extern int64_t cfg_ttl;  // constructor argument: uniform ttl (utlru, ut_map, ut_set), ticks
extern int64_t cfg_tick; // constructor argument: lfuda dynamic age tick, ticks
// constructor argument max_load_factor of the eight caches: any finite positive value (symbolic in the K2 step; the vstd
// rehash rule does not depend on it).  Defined once here.
static float cfg_mlf = 1.0f;
template<class It, class End>
static inline size_t pos_of(It b, End e, It x, size_t maxn)
{
    size_t p = 0;
    for (It it = b; it != e && p <= maxn; ++it, ++p)
        if (it == x)
            return p;
    return NPOS;
}
