#pragma once
#define C_IS_UTSET 1
#include "api_utmap.hpp"
