#pragma once
// rr_cache: vector<element> + vector<size_t> open list (first m_open_list_end entries in use) + unordered_map<key,size_t>
#include "api_rr.hpp"
#include "vf_inv.hpp"

template<class S>
static void install(C& c, S& s)
{
    vf_install_umap(c.m_keyed_elements, s, [&](size_t& m) { m = s.u64(); });
    c.m_open_list_end = s.u64();
    for (size_t i = 0; i < HCAP; ++i)
    {
        c.m_open_list.m_data[i] = s.u64();
        auto& e                 = c.m_elements.m_data[i];
        e.m_value               = VAL_T(s.u64());
        e.m_open_list_position  = s.u64();
        e.m_keyed_position.i    = s.u64();
        e.m_keyed_position.m    = s.b() ? &c.m_keyed_elements : nullptr;
    }
}
static bool inv(C& c)
{
    const size_t n = HCAP;
    if (c.m_elements.size() != n || c.m_open_list.size() != n)
        return false;
    if (!vf_wf_umap(c.m_keyed_elements))
        return false;
    if (c.m_open_list_end > n || c.m_keyed_elements.m_size != c.m_open_list_end || !c.m_keyed_elements.guaranteed(n))
        return false;
    bool seen[HCAP];
    for (size_t p = 0; p < n; ++p)
        seen[p] = false;
    for (size_t p = 0; p < n; ++p)
    {
        size_t slot = c.m_open_list.m_data[p];
        if (slot >= n || seen[slot])
            return false;
        seen[slot] = true;
        if (p < c.m_open_list_end)
        {
            auto& e = c.m_elements.m_data[slot];
            if (e.m_open_list_position != p)
                return false;
            if (e.m_keyed_position.m != &c.m_keyed_elements)
                return false;
            size_t ki = e.m_keyed_position.i;
            if (ki >= c.m_keyed_elements.m_pool_n || !c.m_keyed_elements.m_pool[ki].live)
                return false;
            if (c.m_keyed_elements.m_pool[ki].kv.second != slot)
                return false;
        }
    }
    return true;
}
static void alpha(C& c, Abs& a)
{
    a_clear(a);
    a.n = c.m_open_list_end;
    for (size_t p = 0; p < HCAP; ++p)
        if (p < a.n)
        {
            auto& e = c.m_elements.m_data[c.m_open_list.m_data[p]];
            a.k[p]  = c.m_keyed_elements.m_pool[e.m_keyed_position.i].kv.first;
            a.v[p]  = val_u(e.m_value);
        }
}
