#pragma once
// rr_cache: vector<element> + vector<size_t> open list (first m_open_list_end entries in use) + unordered_map<key,size_t>
#include <optional>
#include <cappuccino/allow.hpp>
#include <cappuccino/lock.hpp>
#include <cappuccino/peek.hpp>
#include <cappuccino/rr_cache.hpp>
#include "vf_inv.hpp"
#include "abs.hpp"
#define T_NAME "rr"
#define T_POLICY P_RR
#define T_TTL 0
#define T_PEEK 0
#define T_CAPPED 1
#define T_PURGE 0
#define T_HAS_CLEAN 0
#define T_HAS_CLEAR 0
#define T_HAS_AGE 0
#define T_HAS_UPDTTL 0
using C = cappuccino::rr_cache<uint64_t, uint64_t, cappuccino::thread_safe::TS>;
#define DECL_C(c) C c(HCAP)

template<class S>
static void install(C& c, S& s)
{
    vf_install_umap(c.m_keyed_elements, s, [&](size_t& m) { m = s.u64(); });
    c.m_open_list_end = s.u64();
    for (size_t i = 0; i < HCAP; ++i)
    {
        c.m_open_list.m_data[i] = s.u64();
        auto& e                 = c.m_elements.m_data[i];
        e.m_value               = s.u64();
        e.m_open_list_position  = s.u64();
        e.m_keyed_position.i    = s.u64();
        e.m_keyed_position.m    = s.b() ? &c.m_keyed_elements : nullptr;
    }
}
static bool inv(C& c)
{
    const size_t n = HCAP;
    if (c.m_elements.size() != n || c.m_open_list.size() != n)
        return false;
    if (!vf_wf_umap(c.m_keyed_elements))
        return false;
    if (c.m_open_list_end > n || c.m_keyed_elements.m_size != c.m_open_list_end || c.m_keyed_elements.m_reserved < n)
        return false;
    bool seen[HCAP];
    for (size_t p = 0; p < n; ++p)
        seen[p] = false;
    for (size_t p = 0; p < n; ++p)
    {
        size_t slot = c.m_open_list.m_data[p];
        if (slot >= n || seen[slot])
            return false;
        seen[slot] = true;
        if (p < c.m_open_list_end)
        {
            auto& e = c.m_elements.m_data[slot];
            if (e.m_open_list_position != p)
                return false;
            if (e.m_keyed_position.m != &c.m_keyed_elements)
                return false;
            size_t ki = e.m_keyed_position.i;
            if (ki >= c.m_keyed_elements.m_pool_n || !c.m_keyed_elements.m_pool[ki].live)
                return false;
            if (c.m_keyed_elements.m_pool[ki].kv.second != slot)
                return false;
        }
    }
    return true;
}
static void alpha(C& c, Abs& a)
{
    a_clear(a);
    a.n = c.m_open_list_end;
    for (size_t p = 0; p < HCAP; ++p)
        if (p < a.n)
        {
            auto& e = c.m_elements.m_data[c.m_open_list.m_data[p]];
            a.k[p]  = c.m_keyed_elements.m_pool[e.m_keyed_position.i].kv.first;
            a.v[p]  = e.m_value;
        }
}
static bool x_insert(C& c, uint64_t k, uint64_t v, uint8_t a, int64_t) { return c.insert(k, v, (cappuccino::allow)a); }
static bool x_erase(C& c, uint64_t k) { return c.erase(k); }
static void x_find(C& c, uint64_t k, bool, Res& r)
{
    auto o = c.find(k);
    r.ok   = o.has_value();
    r.val  = r.ok ? *o : 0;
    r.cnt  = 0;
}
