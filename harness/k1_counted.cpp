// C08, second half: "every value handed to a container is destroyed exactly once by the time the container is
// destroyed".  The container is instantiated with an instance-counting value type (user-written constructor, copy,
// move, assignment, destructor; magic word against use-after-destroy), goes through construction, KSTEPS symbolic
// public calls and destruction; the number of live instances must never be negative, no operation may touch a dead
// instance, and no instance may be alive after the container is gone.  vstd containers construct and destroy their
// elements with placement new / explicit destructor calls exactly where the real ones do.
#define VAL_COUNTED 1
#include CONT_API
#include "clauses.hpp"
#include "exec.hpp"
#ifndef KSTEPS
#define KSTEPS 3
#endif
#ifndef NKEYS
#define NKEYS (HCAP + 2)
#endif
int64_t last_now;
int64_t cfg_ttl = 100, cfg_tick = 5;
extern "C" {
int64_t g_live, g_bad;
// the history, for trace extraction
int64_t  h_cfg_ttl, h_cfg_tick, h_mlf4 = 4;
uint64_t h_op[KSTEPS], h_k[KSTEPS], h_v[KSTEPS], h_a[KSTEPS], h_pk[KSTEPS];
int64_t  h_ttl[KSTEPS], h_now[KSTEPS];
}
extern "C" int harness()
{
    g_live   = 0;
    g_bad    = 0;
    last_now = 0;
#if T_TTL == 2
    cfg_ttl = nondet_i64();
    __vf_assume(cfg_ttl >= 0 && cfg_ttl < TMAX);
#endif
    h_cfg_ttl  = cfg_ttl;
    h_cfg_tick = cfg_tick;
    {
        uint8_t m = nondet_u8(); // max_load_factor below, at and above 1
        __vf_assume(m < 3);
        cfg_mlf = m == 0 ? 0.25f : (m == 1 ? 1.0f : 4.0f);
        h_mlf4  = m == 0 ? 1 : (m == 1 ? 4 : 16);
    }
    {
        DECL_C(c);
        int64_t now = 0;
        for (int s = 0; s < KSTEPS; ++s)
        {
            Ev ev;
            ev.op = nondet_u8();
            __vf_assume(op_valid(ev.op));
            int64_t dt = nondet_i64();
            __vf_assume(dt >= 0 && dt < TMAX);
            now += dt;
            __vf_assume(now < TMAX);
            ev.now = now;
            ev.k   = nondet_u64();
            __vf_assume(ev.k < NKEYS);
            ev.v = nondet_u64();
            __vf_assume(ev.v != 0xDEADBEEFDEADBEEFull); // the poison of moved-from instances is never written by the caller
            ev.a = nondet_u8();
            __vf_assume(ev.a >= 1 && ev.a <= 3);
            ev.pk  = nondet_bool();
            ev.ttl = nondet_i64();
            __vf_assume(ev.ttl >= 0 && ev.ttl < TMAX);
            h_op[s] = ev.op; h_k[s] = ev.k; h_v[s] = ev.v; h_a[s] = ev.a; h_pk[s] = ev.pk; h_ttl[s] = ev.ttl; h_now[s] = ev.now;
            Res r;
            exec_call(c, ev, r);
            VF_P(8, 1, g_live >= 0 && g_bad == 0); // never more destructions than constructions, never a dead instance touched
            VF_P(8, 4, !(r.ok && (ev.op == OP_FIND || ev.op == OP_FIND_PLAIN)) || r.val != 0xDEADBEEFDEADBEEFull); // no moved-from value is served
        }
        VF_REACH(1);
    }
    VF_P(8, 2, g_live == 0); // everything handed to the container has been destroyed, exactly once
    VF_P(8, 3, g_bad == 0);
    return 0;
}
