// Translation validation (every run): the same deterministic pseudo-random history is executed
//   (a) by the REAL library: g++, real libstdc++, real headers (-DVF_REAL, alpha_real through the std API), and
//   (b) by the ENCODING: clang -> LLVM IR -> ir2c -> C -> gcc, with the vstd model (alpha through the model's pools),
// and the printed results + abstract states must be byte-identical.  This validates ir2c, vstd and both abstraction
// functions on everything the histories exercise.
#ifdef VF_REAL
#include <chrono>
#include <cstdint>
#include <cstdio>
#include <random>
static int64_t g_now_ticks;
namespace std { namespace chrono { inline namespace _V2 {
steady_clock::time_point steady_clock::now() noexcept { return time_point(nanoseconds(g_now_ticks * 1000000LL)); }
}}}
int g_prop = -1;
extern "C" {
void     __vf_assert(bool, int) {}
void     __vf_assume(bool) {}
void     __vf_set_now(int64_t t) { g_now_ticks = t; }
uint64_t nondet_u64(void) { return 0; }
uint8_t  nondet_u8(void) { return 0; }
int64_t  nondet_i64(void) { return 0; }
bool     nondet_bool(void) { return false; }
float    nondet_float(void) { return 1.0f; }
void out_res(uint64_t step, uint64_t op, uint64_t k, uint64_t ok, uint64_t val, uint64_t cnt, uint64_t n, uint64_t size)
{
    printf("r %llu %llu %llu %llu %llu %llu %llu %llu\n", (unsigned long long)step, (unsigned long long)op, (unsigned long long)k, (unsigned long long)ok,
           (unsigned long long)val, (unsigned long long)cnt, (unsigned long long)n, (unsigned long long)size);
}
void out_hdr(uint64_t n, int64_t ttl, int64_t tick) { printf("a %llu %lld %lld\n", (unsigned long long)n, (long long)ttl, (long long)tick); }
void out_ent(uint64_t i, uint64_t k, uint64_t v, int64_t d, uint64_t cnt, int64_t age, uint64_t o2)
{
    printf("e %llu %llu %llu %lld %llu %lld %llu\n", (unsigned long long)i, (unsigned long long)k, (unsigned long long)v, (long long)d, (unsigned long long)cnt,
           (long long)age, (unsigned long long)o2);
}
}
#include CONT_API
#define ALPHA alpha_real
#else
#include CONT_HDR
#define ALPHA alpha
extern "C" {
void out_res(uint64_t step, uint64_t op, uint64_t k, uint64_t ok, uint64_t val, uint64_t cnt, uint64_t n, uint64_t size);
void out_hdr(uint64_t n, int64_t ttl, int64_t tick);
void out_ent(uint64_t i, uint64_t k, uint64_t v, int64_t d, uint64_t cnt, int64_t age, uint64_t o2);
}
#endif
#include "clauses.hpp"
#include "exec.hpp"
int64_t last_now, cfg_ttl = 4, cfg_tick = 3;
#ifndef DSTEPS
#define DSTEPS 4000
#endif
static uint64_t lcg;
static uint64_t rnd() { lcg = lcg * 6364136223846793005ULL + 1442695040888963407ULL; return lcg >> 24; }

extern "C" int diff_main(uint64_t seed)
{
    lcg = seed * 2654435761ULL + 12345;
    for (int round = 0; round < 3; ++round)
    {
        cfg_ttl  = 2 + (int64_t)(rnd() % 5);
        cfg_tick = 1 + (int64_t)(rnd() % 4);
        int64_t now = 0;
        __vf_set_now(0);
        DECL_C(c);
        Abs a;
        for (uint64_t s = 0; s < DSTEPS; ++s)
        {
            Ev ev;
            do { ev.op = (int)(rnd() % 8); } while (!op_valid(ev.op));
            if ((ev.op == OP_CLEAR || ev.op == OP_UPDTTL) && rnd() % 8 != 0) ev.op = OP_INSERT; // keep these rare
            now += (int64_t)(rnd() % 3);
            ev.now = now;
            ev.k   = rnd() % (T_CAPPED ? HCAP + 3 : HCAP + 1); // ut_map/ut_set: the model pools hold HCAP+1 entries
            ev.v   = rnd() % 1000;
            ev.a   = (uint8_t)(1 + rnd() % 3);
            ev.pk  = (rnd() & 1) != 0;
            ev.ttl = (int64_t)(rnd() % 7);
            uint64_t draw = rnd();
#if T_POLICY == P_RR
            // rr: the differential does not consume random draws (how a draw maps to a victim is the library's business and
            // is checked symbolically): an insert that would evict is turned into an erase of the same key
            if (ev.op == OP_INSERT && c.size() >= HCAP)
            {
                Res probe;
                x_find(c, ev.k, false, probe);
                if (!probe.ok)
                    ev.op = OP_ERASE;
            }
#endif
            (void)draw;
            Res r;
            exec_call(c, ev, r);
            out_res(s, (uint64_t)ev.op, ev.k, r.ok, r.val, r.cnt, r.n, r.size);
            ALPHA(c, a);
            out_hdr(a.n, a.ttl, a.tick);
            for (size_t i = 0; i < AMAX; ++i)
                if (i < a.n)
                    out_ent(i, a.k[i], a.v[i], a.d[i], a.cnt[i], a.age[i], a.o2[i]);
        }
    }
    return 0;
}
#ifdef VF_REAL
int main(int argc, char** argv) { return diff_main(argc > 1 ? strtoull(argv[1], 0, 10) : 1); }
#endif
