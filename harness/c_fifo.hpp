#pragma once
// fifo_cache: list<element{optional<keyed iterator>, value}> (free nodes form a prefix) + unordered_map<key, list iterator>
#include "api_fifo.hpp"
#include "vf_inv.hpp"
using FifoIt  = typename std::list<typename C::element>::iterator;
using KeyedIt = typename std::unordered_map<uint64_t, FifoIt>::iterator;

template<class S>
static void install(C& c, S& s)
{
    auto& L = c.m_fifo_list;
    auto& M = c.m_keyed_elements;
    vf_install_list_links(L, s);
    vf_install_umap(M, s, [&](FifoIt& it) {
        it.i = s.u64();
        it.l = s.b() ? &L : nullptr;
    });
    c.m_used_size = s.u64();
    for (size_t i = 1; i <= HCAP; ++i)
    {
        auto& e   = L.m_pool[i].value;
        e.m_value = VAL_T(s.u64());
        KeyedIt it;
        it.i     = s.u64();
        it.m     = s.b() ? &M : nullptr;
        bool has = s.b();
        if (has)
            e.m_keyed_position = it;
        else
            e.m_keyed_position = std::nullopt;
    }
}
static bool inv(C& c)
{
    const size_t n = HCAP;
    auto&        L = c.m_fifo_list;
    auto&        M = c.m_keyed_elements;
    if (!vf_wf_list(L, n) || L.m_size != n)
        return false;
    if (!vf_wf_umap(M))
        return false;
    if (c.m_used_size > n || M.m_size != c.m_used_size || !M.guaranteed(n))
        return false;
    size_t cur = L.m_pool[0].next, keyed = 0;
    bool   seen_keyed = false;
    for (size_t p = 0; p < n; ++p)
    {
        auto& e = L.m_pool[cur].value;
        if (e.m_keyed_position.has_value())
        {
            seen_keyed = true;
            ++keyed;
            auto it = *e.m_keyed_position;
            if (it.m != &M || it.i >= M.m_pool_n || !M.m_pool[it.i].live)
                return false;
            auto& back = M.m_pool[it.i].kv.second;
            if (back.l != &L || back.i != cur)
                return false;
        }
        else if (seen_keyed)
            return false; // free nodes form a prefix
        cur = L.m_pool[cur].next;
    }
    return keyed == c.m_used_size;
}
static void alpha(C& c, Abs& a)
{
    a_clear(a);
    auto&  L   = c.m_fifo_list;
    auto&  M   = c.m_keyed_elements;
    size_t cur = L.m_pool[0].next;
    for (size_t p = 0; p < HCAP; ++p)
    {
        auto& e = L.m_pool[cur].value;
        if (e.m_keyed_position.has_value())
        {
            a.k[a.n] = M.m_pool[(*e.m_keyed_position).i].kv.first;
            a.v[a.n] = val_u(e.m_value);
            ++a.n;
        }
        cur = L.m_pool[cur].next;
    }
}
