#pragma once
// Universal abstract state (alpha) of a container: the resident entries with exactly the data the
// properties speak about, in the container's policy order.
//   lru/tlru/utlru: index 0 = most recently used, last = LRU victim
//   mru:            index 0 = oldest use,        last = most recently used = victim
//   fifo:           index 0 = earliest inserted = victim
//   lfu/lfuda:      order of the use-count multimap (index 0 = victim)
//   rr:             open-list order (no meaning for the properties)
//   ut_map/ut_set:  ttl-list order (index 0 = first to be purged)
// o2 is the entry's position in the container's second order, where there is one
// (tlru: ttl multimap, utlru: ttl list, lfuda: age list); 0 otherwise.
#include "vf.hpp"
#ifndef AMAX
#define AMAX (HCAP + 1)
#endif
struct Abs
{
    size_t   n;
    uint64_t k[AMAX];
    uint64_t v[AMAX];
    int64_t  d[AMAX];   // deadline (TTL containers)
    uint64_t cnt[AMAX]; // use count (lfu, lfuda)
    int64_t  age[AMAX]; // time of last use or aging (lfuda)
    size_t   o2[AMAX];
    int64_t  ttl;  // configured uniform ttl (utlru, ut_map, ut_set)
    int64_t  tick; // configured aging tick (lfuda)
};
static inline void a_clear(Abs& a)
{
    a.n   = 0;
    a.ttl = 0;
    a.tick = 0;
    for (size_t i = 0; i < AMAX; ++i)
    {
        a.k[i] = 0; a.v[i] = 0; a.d[i] = 0; a.cnt[i] = 0; a.age[i] = 0; a.o2[i] = 0;
    }
}
static inline size_t a_idx(const Abs& a, uint64_t k)
{
    for (size_t i = 0; i < AMAX; ++i)
        if (i < a.n && a.k[i] == k)
            return i;
    return NPOS;
}
static inline bool a_same(const Abs& x, size_t i, const Abs& y, size_t j)
{
    return x.k[i] == y.k[j] && x.v[i] == y.v[j] && x.d[i] == y.d[j] && x.cnt[i] == y.cnt[j] && x.age[i] == y.age[j];
}
// full equality: same entries in the same order, same second order, same configured ttl
static inline bool a_eq(const Abs& x, const Abs& y)
{
    if (x.n != y.n || x.ttl != y.ttl || x.tick != y.tick)
        return false;
    for (size_t i = 0; i < AMAX; ++i)
        if (i < x.n && (!a_same(x, i, y, i) || x.o2[i] != y.o2[i]))
            return false;
    return true;
}
// post is pre with some entries whose deadline is <= now removed and nothing else changed
// (relative order in both orders preserved).  Used where the statement lets TTL containers discard expired entries.
static inline bool a_eq_minus_expired(const Abs& post, const Abs& pre, int64_t now)
{
    if (post.ttl != pre.ttl)
        return false;
    size_t q = 0;
    size_t from[AMAX];
    for (size_t p = 0; p < AMAX; ++p)
    {
        if (p >= pre.n)
            continue;
        if (q < post.n && a_same(post, q, pre, p))
        {
            from[q] = p;
            ++q;
        }
        else if (!(pre.d[p] <= now))
            return false; // a live entry is missing or changed
    }
    if (q != post.n)
        return false;
    for (size_t i = 0; i < AMAX; ++i)
        for (size_t j = 0; j < AMAX; ++j)
            if (i < post.n && j < post.n && (post.o2[i] < post.o2[j]) != (pre.o2[from[i]] < pre.o2[from[j]]))
                return false;
    return true;
}
// number of entries with deadline <= now
static inline size_t a_expired(const Abs& a, int64_t now)
{
    size_t c = 0;
    for (size_t i = 0; i < AMAX; ++i)
        if (i < a.n && a.d[i] <= now)
            ++c;
    return c;
}
// post (as a sequence) == pre without index drop (NPOS: none)
static inline bool a_seq_without(const Abs& post, const Abs& pre, size_t drop)
{
    size_t q = 0;
    for (size_t p = 0; p < AMAX; ++p)
    {
        if (p >= pre.n || p == drop)
            continue;
        if (q >= post.n || post.k[q] != pre.k[p])
            return false;
        ++q;
    }
    return q == post.n;
}
// the result of a lookup / an insert, container independent
struct Res
{
    bool     ok;  // insert/erase: the returned bool; find: has_value
    uint64_t val; // find: the value (ut_set: 0)
    uint64_t cnt; // find_with_use_count: the count
    size_t   n;   // clean_expired_values / dynamically_age: the returned count
    size_t   size, cap;
    size_t   idx_n; // number of entries in the key index (what lookups consult), read after the call
    bool     empty;
};
