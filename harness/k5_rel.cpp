// K5: relational steps over TWO real containers driven from the same symbolic state vector.
//   MODE 1 (C18): c1 gets one range call of RLEN elements, c2 the same elements as single calls, in order, at the same
//                 instant: counts, per-element results and the complete abstract states must agree.
//   MODE 2 (C15 ii): rr_cache, full: the same new key is inserted into both copies with different draws: different victims.
//   MODE 3 (C20): c1 from any invariant state then clear(); c2 freshly constructed with the configured TTL; two further
//                 symbolic calls on both: results and abstract states agree.
#include CONT_HDR
// range methods 24..27 are the iterator-pair overloads of 20..23 (fifo_cache only, see ranges.hpp)
#if defined(RMETHOD) && RMETHOD >= 24 && RMETHOD <= 27
#define RANGE_ITER_FORM 1
#define RMETHOD_EFF (RMETHOD - 4)
#else
#define RMETHOD_EFF RMETHOD
#endif
#include "clauses.hpp"
#include "exec.hpp"
#include "ranges.hpp"
#define REL_ALPHA alpha
#include "rel_clauses.hpp"
#ifndef INV_PRE
#define INV_PRE(c) inv(c)
#endif
int64_t last_now;
int64_t cfg_ttl = 100, cfg_tick = 5;
extern "C" {
void __vf_draw_force_distinct(void);
// the counterexample, for trace extraction
int64_t  h_last_now, h_pre_ttl, h_pre_tick, h_cfg_ttl;
uint64_t h_pre_n, h_pre_k[AMAX], h_pre_v[AMAX], h_pre_cnt[AMAX], h_pre_o2[AMAX];
int64_t  h_pre_d[AMAX], h_pre_age[AMAX];
uint64_t h_op[4], h_k[4], h_v[4], h_a[4], h_pk[4];
int64_t  h_ttl[4], h_now[4];
}
static void record_pre(const Abs& pre)
{
    h_last_now = last_now; h_pre_ttl = pre.ttl; h_pre_tick = pre.tick; h_pre_n = pre.n; h_cfg_ttl = cfg_ttl;
    for (size_t p = 0; p < AMAX; ++p)
    {
        h_pre_k[p] = pre.k[p]; h_pre_v[p] = pre.v[p]; h_pre_cnt[p] = pre.cnt[p]; h_pre_d[p] = pre.d[p]; h_pre_age[p] = pre.age[p]; h_pre_o2[p] = pre.o2[p];
    }
}
static void record_ev(int i, const Ev& e)
{
    h_op[i] = e.op; h_k[i] = e.k; h_v[i] = e.v; h_a[i] = e.a; h_pk[i] = e.pk; h_ttl[i] = e.ttl; h_now[i] = e.now;
}

static void sym_ev(Ev& e, int op, int64_t now)
{
    e.op = op; e.now = now;
    e.k = nondet_u64(); e.v = nondet_u64();
    e.a = nondet_u8(); __vf_assume(e.a >= 1 && e.a <= 3);
    e.pk = nondet_bool();
    e.ttl = nondet_i64(); __vf_assume(e.ttl >= 0 && e.ttl < TMAX);
}

extern "C" int harness()
{
    last_now = 0;
#if MODE == 3
#if T_TTL == 2
    cfg_ttl = nondet_i64();
    __vf_assume(cfg_ttl >= 0 && cfg_ttl < TMAX);
#endif
#endif
    DECL_C(c1);
    DECL_C(c2);
    last_now = nondet_i64();
    __vf_assume(last_now >= 0 && last_now < TMAX);
    SrcRec<96 * (HCAP + 2)> rec;
    rec.n = 0;
    install(c1, rec);
    __vf_assume(INV_PRE(c1));
    Abs pre;
    alpha(c1, pre);
#ifdef ASSUME_BOUNDS
    ASSUME_BOUNDS(c1, pre);
#endif
    int64_t now = nondet_i64();
    __vf_assume(now >= last_now && now < TMAX);
#if MODE == 1 || MODE == 2
    SrcPlay play;
    play.w = rec.w;
    play.n = 0;
    install(c2, play);
#endif
    Abs a1, a2;
    (void)a1; (void)a2;
#if MODE == 1
#ifdef KF_TTL0 /* known-finding case split (ut_map/ut_set with a configured TTL of exactly 0): entries are born expired, so the
                  singles purge between two elements of the range while the range form purges once */
    if (T_PURGE)
        __vf_assume(KF_TTL0 ? pre.ttl == 0 : pre.ttl > 0);
#endif
    Ev e[RMAX];
    for (int i = 0; i < RMAX; ++i)
    {
        sym_ev(e[i], RMETHOD_EFF, now);
        record_ev(i, e[i]);
    }
    record_pre(pre);
    __vf_set_now(now);
    range_vs_singles(c1, c2, RMETHOD_EFF, e, RLEN, e[0].a, e[0].pk, pre, now);
    last_now = now;
    VF_P(0, 3, inv(c1));
    VF_REACH(1);
#elif MODE == 2
    Ev e;
    sym_ev(e, OP_INSERT, now);
    __vf_assume(pre.n == HCAP && a_idx(pre, e.k) == NPOS && (e.a & 1));
    record_pre(pre);
    record_ev(0, e);
    __vf_set_now(now);
    __vf_draw_mode(0);
    bool r1 = x_insert(c1, e.k, e.v, e.a, e.ttl);
    __vf_draw_force_distinct(); // the second copy draws a different number
    bool r2 = x_insert(c2, e.k, e.v, e.a, e.ttl);
    alpha(c1, a1);
    alpha(c2, a2);
    size_t g1 = NPOS, g2 = NPOS;
    for (size_t p = 0; p < AMAX; ++p)
        if (p < pre.n)
        {
            if (a_idx(a1, pre.k[p]) == NPOS) g1 = p;
            if (a_idx(a2, pre.k[p]) == NPOS) g2 = p;
        }
    VF_P(15, 10, r1 && r2 && g1 != NPOS && g2 != NPOS);
    VF_P(15, 11, g1 != g2); // different draws, different victims: the victim is an injective function of the draw
    VF_REACH(1);
#elif MODE == 3
#if T_TTL == 2
    __vf_assume(pre.ttl == cfg_ttl); // c2 was constructed with the TTL currently configured in c1
#endif
    __vf_set_now(now);
    c1.clear();
    last_now = now;
    VF_P(0, 4, inv(c1));
    record_pre(pre);
    for (int step = 0; step < 2; ++step)
    {
        Ev e;
        e.op = nondet_u8();
        __vf_assume(op_valid(e.op));
        int64_t dt = nondet_i64();
        __vf_assume(dt >= 0 && dt < TMAX);
        now += dt;
        __vf_assume(now < TMAX);
        sym_ev(e, e.op, now);
        record_ev(step, e);
        twin_step(c1, c2, e);
        last_now = now;
    }
    VF_REACH(1);
#endif
    return 0;
}
