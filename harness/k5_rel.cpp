// K5: relational steps over TWO real containers driven from the same symbolic state vector.
//   MODE 1 (C18): c1 gets one range call of RLEN elements, c2 the same elements as single calls, in order, at the same
//                 instant: counts, per-element results and the complete abstract states must agree.
//   MODE 2 (C15 ii): rr_cache, full: the same new key is inserted into both copies with different draws: different victims.
//   MODE 3 (C20): c1 from any invariant state then clear(); c2 freshly constructed with the configured TTL; two further
//                 symbolic calls on both: results and abstract states agree.
#include CONT_HDR
#include "clauses.hpp"
#include "exec.hpp"
#include "ranges.hpp"
#ifndef INV_PRE
#define INV_PRE(c) inv(c)
#endif
int64_t last_now;
int64_t cfg_ttl = 100, cfg_tick = 5;
extern "C" {
void __vf_draw_mode(int m); // 0: fresh symbolic draws, recorded; 1: replay the recorded draws from the start
void __vf_draw_force_distinct(void);
}
#define RM_INSERT 20
#define RM_ERASE 21
#define RM_FIND 22
#define RM_FILL 23

static void sym_ev(Ev& e, int op, int64_t now)
{
    e.op = op; e.now = now;
    e.k = nondet_u64(); e.v = nondet_u64();
    e.a = nondet_u8(); __vf_assume(e.a >= 1 && e.a <= 3);
    e.pk = nondet_bool();
    e.ttl = nondet_i64(); __vf_assume(e.ttl >= 0 && e.ttl < TMAX);
}

extern "C" int harness()
{
    last_now = 0;
#if MODE == 3
#if T_TTL == 2
    cfg_ttl = nondet_i64();
    __vf_assume(cfg_ttl >= 0 && cfg_ttl < TMAX);
#endif
#endif
    DECL_C(c1);
    DECL_C(c2);
    last_now = nondet_i64();
    __vf_assume(last_now >= 0 && last_now < TMAX);
    SrcRec<96 * (HCAP + 2)> rec;
    rec.n = 0;
    install(c1, rec);
    __vf_assume(INV_PRE(c1));
    Abs pre;
    alpha(c1, pre);
#ifdef ASSUME_BOUNDS
    ASSUME_BOUNDS(c1, pre);
#endif
    int64_t now = nondet_i64();
    __vf_assume(now >= last_now && now < TMAX);
#if MODE == 1 || MODE == 2
    SrcPlay play;
    play.w = rec.w;
    play.n = 0;
    install(c2, play);
#endif
    Abs a1, a2;
#if MODE == 1
    Ev e[RMAX];
    for (int i = 0; i < RMAX; ++i)
        sym_ev(e[i], OP_INSERT, now);
    const uint8_t al = e[0].a;
    const bool    pk = T_PEEK ? e[0].pk : false;
    Res           o1[RMAX], o2[RMAX];
    bool          ko = true;
    size_t        n1 = 0, n2 = 0;
    __vf_set_now(now);
    __vf_draw_mode(0);
#if RMETHOD == RM_INSERT
    n1 = x_insert_range(c1, e, RLEN, al);
    __vf_draw_mode(1);
    for (size_t i = 0; i < RLEN; ++i)
        n2 += x_insert(c2, e[i].k, e[i].v, al, e[i].ttl) ? 1 : 0;
    VF_P(18, 1, n1 == n2); // the count equals the number of individual successes
#elif RMETHOD == RM_ERASE
    n1 = x_erase_range(c1, e, RLEN);
    for (size_t i = 0; i < RLEN; ++i)
        n2 += x_erase(c2, e[i].k) ? 1 : 0;
    VF_P(18, 2, n1 == n2);
#elif RMETHOD == RM_FIND
    n1 = x_find_range(c1, e, RLEN, pk, o1, &ko);
    for (size_t i = 0; i < RLEN; ++i)
        x_find(c2, e[i].k, pk, o2[i]);
    VF_P(18, 3, n1 == RLEN && ko); // one result per input key, in input order, duplicates included
    for (size_t i = 0; i < RLEN; ++i)
        VF_P(18, 4, o1[i].ok == o2[i].ok && (!o1[i].ok || o1[i].val == o2[i].val));
#elif RMETHOD == RM_FILL
    x_find_range_fill(c1, e, RLEN, pk, o1, &ko);
    for (size_t i = 0; i < RLEN; ++i)
        x_find(c2, e[i].k, pk, o2[i]);
    VF_P(18, 5, ko);
    for (size_t i = 0; i < RLEN; ++i)
        VF_P(18, 6, o1[i].ok == o2[i].ok && (!o1[i].ok || o1[i].val == o2[i].val));
#endif
    last_now = now;
    alpha(c1, a1);
    alpha(c2, a2);
    VF_P(18, 7, a_eq(a1, a2));                   // exactly the effect of the singles (values, deadlines, counts, both orders)
    VF_P(18, 8, c1.size() == c2.size());
    VF_P(0, 3, inv(c1));
    VF_REACH(1);
    if (n1 > 0) VF_REACH(2);
#elif MODE == 2
    Ev e;
    sym_ev(e, OP_INSERT, now);
    __vf_assume(pre.n == HCAP && a_idx(pre, e.k) == NPOS && (e.a & 1));
    __vf_set_now(now);
    __vf_draw_mode(0);
    bool r1 = x_insert(c1, e.k, e.v, e.a, e.ttl);
    __vf_draw_force_distinct(); // the second copy draws a different number
    bool r2 = x_insert(c2, e.k, e.v, e.a, e.ttl);
    alpha(c1, a1);
    alpha(c2, a2);
    size_t g1 = NPOS, g2 = NPOS;
    for (size_t p = 0; p < AMAX; ++p)
        if (p < pre.n)
        {
            if (a_idx(a1, pre.k[p]) == NPOS) g1 = p;
            if (a_idx(a2, pre.k[p]) == NPOS) g2 = p;
        }
    VF_P(15, 10, r1 && r2 && g1 != NPOS && g2 != NPOS);
    VF_P(15, 11, g1 != g2); // different draws, different victims: the victim is an injective function of the draw
    VF_REACH(1);
#elif MODE == 3
#if T_TTL == 2
    __vf_assume(pre.ttl == cfg_ttl); // c2 was constructed with the TTL currently configured in c1
#endif
    __vf_set_now(now);
    c1.clear();
    last_now = now;
    VF_P(0, 4, inv(c1));
    for (int step = 0; step < 2; ++step)
    {
        Ev e;
        e.op = nondet_u8();
        __vf_assume(op_valid(e.op));
        int64_t dt = nondet_i64();
        __vf_assume(dt >= 0 && dt < TMAX);
        now += dt;
        __vf_assume(now < TMAX);
        sym_ev(e, e.op, now);
        Res r1, r2;
        __vf_draw_mode(0);
        exec_call(c1, e, r1);
        __vf_draw_mode(1);
        exec_call(c2, e, r2);
        last_now = now;
        alpha(c1, a1);
        alpha(c2, a2);
        VF_P(20, 10, r1.ok == r2.ok && r1.val == r2.val && r1.cnt == r2.cnt && r1.n == r2.n && r1.size == r2.size && r1.empty == r2.empty && r1.cap == r2.cap);
        VF_P(20, 11, a_eq(a1, a2));
    }
    VF_REACH(1);
#endif
    return 0;
}
