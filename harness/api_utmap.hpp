#pragma once
#include "api_common.hpp"
#ifdef C_IS_UTSET
#include <cappuccino/ut_set.hpp>
#define T_NAME "utset"
#define T_VALUE 0
#define T_HAS_CLEAR 0
using C = cappuccino::ut_set<uint64_t, cappuccino::thread_safe::TS>;
#else
#include <cappuccino/ut_map.hpp>
#define T_NAME "utmap"
#define T_VALUE 1
#define T_HAS_CLEAR 1
using C = cappuccino::ut_map<uint64_t, VAL_T, cappuccino::thread_safe::TS>;
#endif
#define T_POLICY P_NONE
#define T_TTL 2
#define T_PEEK 0
#define T_PEEK_KIND 0
#define T_CAPPED 0
#define T_PURGE 1
#define T_HAS_CLEAN 1
#define T_HAS_AGE 0
#define T_HAS_UPDTTL 0
#define DECL_C(c) C c(std::chrono::milliseconds{cfg_ttl})
static bool x_insert(C& c, uint64_t k, uint64_t v, uint8_t a, int64_t)
{
#ifdef C_IS_UTSET
    return c.insert(k, (cappuccino::allow)a);
#else
    return c.insert(k, VAL_T(v), (cappuccino::allow)a);
#endif
}
static bool x_erase(C& c, uint64_t k) { return c.erase(k); }
static void x_find(C& c, uint64_t k, bool, Res& r)
{
#ifdef C_IS_UTSET
    r.ok  = c.find(k);
    r.val = 0;
#else
    auto o = c.find(k);
    r.ok   = o.has_value();
    r.val  = r.ok ? val_u(*o) : 0;
#endif
    r.cnt = 0;
}
#ifdef VF_REAL
static void alpha_real(C& c, Abs& a)
{
    a_clear(a);
    a.n      = c.m_ttl_list.size();
    a.ttl    = c.m_uniform_ttl.count();
    size_t p = 0;
    for (auto it = c.m_ttl_list.begin(); it != c.m_ttl_list.end() && p < AMAX; ++it, ++p)
    {
        // the key of a ttl node: the index entry that points back at it
        uint64_t key = 0xDEAD000000000000ULL + p;
        for (auto m = c.m_keyed_elements.begin(); m != c.m_keyed_elements.end(); ++m)
            if (m->second.m_ttl_position == it)
            {
                key = m->first;
#ifndef C_IS_UTSET
                a.v[p] = val_u(m->second.m_value);
#endif
            }
        a.k[p] = key;
        a.d[p] = tp_i(it->m_expire_time);
    }
    if (a.n > AMAX)
        a.n = AMAX;
}
#endif
