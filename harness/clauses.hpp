#pragma once
// The clauses of the properties as relations over (alpha(pre), call, result, alpha(post)).
// One definition, three uses: the K2 step from an arbitrary invariant state, the K1 bounded history from the
// constructor (both under CBMC), and the replay of a counterexample on the real build (VF_REAL).
// Requires the traits of one container (api_<container>.hpp) to be in scope.
#ifndef T_VALUE
#define T_VALUE 1
#endif
#ifndef T_RATIO4
#define T_RATIO4 4
#endif
struct Ev
{
    int      op;
    uint64_t k, v;
    uint8_t  a;   // allow: 1 insert, 2 update, 3 insert_or_update
    bool     pk;  // peek
    int64_t  ttl; // tlru insert ttl / utlru update_ttl argument
    int64_t  now;
};
static inline bool is_exp(const Abs& a, size_t p, int64_t now) { return T_TTL != 0 && a.d[p] <= now; }
static inline size_t n_live(const Abs& a, int64_t now)
{
    size_t c = 0;
    for (size_t p = 0; p < AMAX; ++p)
        if (p < a.n && !is_exp(a, p, now))
            ++c;
    return c;
}
// post[from..upto) lists, in order, the keys of pre except indices s1, s2 (NPOS: none); if may_drop_exp, entries of pre that
// are expired at `now` may additionally be missing (TTL containers may discard expired entries at any time; *that* they are
// discarded where required is C17's business, not the order properties')
static inline bool seq_is(const Abs& post, size_t from, size_t upto, const Abs& pre, size_t s1, size_t s2, bool may_drop_exp, int64_t now)
{
    size_t q = from;
    for (size_t p = 0; p < AMAX; ++p)
    {
        if (p >= pre.n || p == s1 || p == s2)
            continue;
        if (q < upto && post.k[q] == pre.k[p])
        {
            ++q;
            continue;
        }
        if (may_drop_exp && is_exp(pre, p, now))
            continue;
        return false;
    }
    return q == upto;
}

static inline void check_clauses(const Abs& pre, const Abs& post, const Ev& ev, const Res& r)
{
    const uint64_t k = ev.k, v = ev.v;
    const uint8_t  a = ev.a;
    const bool     pk = T_PEEK ? ev.pk : false;
    const int64_t  ttl = ev.ttl, now = ev.now;
    const size_t   i        = a_idx(pre, k);
    const bool     resident = i != NPOS;
    const bool     live_i   = resident && !is_exp(pre, i, now);
    // the TTL in force for a write made by this call
    const int64_t ttl_eff = (T_TTL == 1) ? ttl : pre.ttl;
    // a write whose TTL is 0 creates an entry that is expired the instant it is written: an implementation may keep it
    // (unreaped) or drop it at once - no property obliges it to stay resident
    const bool born_dead = (T_TTL != 0) && ttl_eff <= 0;
    (void)v; (void)a; (void)ttl; (void)ttl_eff; (void)live_i; (void)born_dead;
    const int  op = ev.op;
    const bool is_insert = op == OP_INSERT, is_erase = op == OP_ERASE, is_find = (op == OP_FIND || op == OP_FIND_PLAIN);
    const bool is_clear = op == OP_CLEAR, is_clean = op == OP_CLEAN, is_age = op == OP_AGE;
    // an insert that adds a new key to a full cache
    const bool   evicting = T_CAPPED && is_insert && r.ok && !resident && pre.n == HCAP;
    const size_t qk       = a_idx(post, k);
    size_t       n_gone = 0, gone = NPOS; // entries of pre whose key is no longer resident
    for (size_t p = 0; p < AMAX; ++p)
        if (p < pre.n && a_idx(post, pre.k[p]) == NPOS)
        {
            ++n_gone;
            gone = p;
        }
    const size_t n_exp_pre = (T_TTL != 0) ? a_expired(pre, now) : 0;

    // ================= C01 lookup integrity =================
    if (is_find)
    {
        VF_P(1, 1, !r.ok || live_i);                                 // a hit only for a resident, unexpired key
        VF_P(1, 2, !r.ok || !resident || !T_VALUE || r.val == pre.v[i]); // with exactly the stored value
    }
    for (size_t q = 0; q < AMAX; ++q)
        if (q < post.n)
        {
            size_t p = a_idx(pre, post.k[q]);
            if (is_insert && r.ok && post.k[q] == k)
                VF_P(1, 3, !T_VALUE || post.v[q] == v); // latest value written
            else
                VF_P(1, 4, p != NPOS && post.v[q] == pre.v[p]); // no key appears from nowhere, no value changes unwritten
        }
    if (is_insert && r.ok)
        VF_P(1, 5, qk != NPOS || born_dead);
    if (is_erase && r.ok)
        VF_P(1, 6, qk == NPOS);
    if (is_clear)
        VF_P(1, 7, post.n == 0);

    // ================= C02 capacity bound, truthful observers =================
#if T_CAPPED
    VF_P(2, 1, r.cap == HCAP);
    VF_P(2, 2, r.size <= HCAP);
#endif
    VF_P(2, 3, r.empty == (r.size == 0));
    VF_P(2, 8, r.size == r.idx_n); // the counter agrees with the key index that lookups consult
#if T_TTL == 0
    VF_P(2, 4, r.size == post.n);
#elif !T_PURGE
    VF_P(2, 5, n_live(post, now) <= r.size && r.size <= post.n);
#else
    VF_P(2, 6, r.size == n_live(post, now)); // ut_map/ut_set: right after any call size() is the number of live keys
    VF_P(2, 7, r.size == post.n);
#endif

    // ================= C03 retention =================
    for (size_t p = 0; p < AMAX; ++p)
        if (p < pre.n && a_idx(post, pre.k[p]) == NPOS)
        {
            bool excused = is_exp(pre, p, now) || (is_erase && r.ok && pre.k[p] == k) || is_clear || evicting;
            VF_P(3, 1, excused);
        }
#if T_TTL != 0
    // "expiry of its TTL" is judged by the stored deadlines, so C03 also needs them to be right: a write may not leave a
    // deadline earlier than now + the TTL in force, and no other entry's deadline may move earlier (an entry that would
    // expire early is a live entry lost)
    for (size_t q = 0; q < AMAX; ++q)
        if (q < post.n)
        {
            size_t p = a_idx(pre, post.k[q]);
            if (is_insert && r.ok && post.k[q] == k)
                VF_P(3, 6, post.d[q] >= now + ttl_eff);
            else if (p != NPOS)
                VF_P(3, 7, post.d[q] >= pre.d[p]);
        }
#endif
    if (evicting)
    {
        VF_P(3, 2, n_gone == 1);      // exactly one previously resident entry removed
        VF_P(3, 3, r.size == HCAP);   // and the cache stays full
        VF_P(3, 4, qk != NPOS || born_dead);
    }
    if (is_insert && r.ok && !resident && !evicting)
        for (size_t p = 0; p < AMAX; ++p)
            if (p < pre.n && !is_exp(pre, p, now))
                VF_P(3, 5, a_idx(post, pre.k[p]) != NPOS);

#if T_TTL != 0
    // ================= C04 TTL safety (nothing served at/after its deadline; deadlines never later than written) =========
    if (is_find)
        VF_P(4, 1, !r.ok || !resident || now < pre.d[i]);
    for (size_t q = 0; q < AMAX; ++q)
        if (q < post.n)
        {
            size_t p = a_idx(pre, post.k[q]);
            if (is_insert && r.ok && post.k[q] == k)
                VF_P(4, 2, post.d[q] <= now + ttl_eff);
            else if (p != NPOS)
                VF_P(4, 3, post.d[q] <= pre.d[p]);
        }
    // ================= C05 TTL retention (nothing expires early; every write restarts the TTL) =================
    if (is_find)
        VF_P(5, 1, !live_i || r.ok);
    for (size_t q = 0; q < AMAX; ++q)
        if (q < post.n)
        {
            size_t p = a_idx(pre, post.k[q]);
            if (is_insert && r.ok && post.k[q] == k)
                VF_P(5, 2, post.d[q] >= now + ttl_eff);
            else if (p != NPOS)
                VF_P(5, 3, post.d[q] >= pre.d[p]);
        }
    // no call other than the ones C03 allows makes an unexpired entry disappear (it would not be "returned by every
    // lookup that finishes before t+d"): clean-up, lookups, updates, rejected inserts, erases of other keys keep it
    for (size_t p = 0; p < AMAX; ++p)
        if (p < pre.n && !is_exp(pre, p, now) && a_idx(post, pre.k[p]) == NPOS)
            VF_P(5, 7, (is_erase && r.ok && pre.k[p] == k) || is_clear || (evicting && n_gone == 1));
    if (op == OP_UPDTTL)
    {
        VF_P(5, 4, post.ttl == ttl);
        Abs t = post;
        t.ttl = pre.ttl;
        VF_P(5, 5, a_eq(t, pre)); // existing entries and their deadlines untouched
    }
    else
        VF_P(5, 6, post.ttl == pre.ttl);
#endif

    // ================= C09 allow modes =================
    if (is_insert)
    {
        if (live_i)
            VF_P(9, 1, r.ok == ((a & 2) != 0));
        else if (a & 1)
            VF_P(9, 2, r.ok);
        else if (!resident)
            VF_P(9, 3, !r.ok); // update-only never creates an entry for an absent key
        // (update-only on an expired, unreaped entry may succeed or fail)
        if (r.ok)
        {
            VF_P(9, 4, (qk != NPOS && (!T_VALUE || post.v[qk] == v)) || (born_dead && qk == NPOS));
#if T_TTL != 0
            VF_P(9, 5, (qk != NPOS && post.d[qk] == now + ttl_eff) || (born_dead && qk == NPOS));
#endif
        }
        else
        {
            if (live_i) // rejected: value and expiry untouched
                VF_P(9, 6, qk != NPOS && post.v[qk] == pre.v[i] && post.d[qk] == pre.d[i]);
            else
                VF_P(9, 7, qk == NPOS || (resident && is_exp(post, qk, now)));
        }
    }

#if T_POLICY == P_LRU
    // ================= C10 LRU order =================
    {
        const bool hit_access = is_find && r.ok && !pk;
        if (is_insert && r.ok)
        {
            VF_P(10, 1, post.n >= 1 && post.k[0] == k);
            if (evicting)
            {
                if (n_exp_pre == 0)
                    VF_P(10, 2, a_idx(post, pre.k[pre.n - 1]) == NPOS); // the victim is the least recently used
                VF_P(10, 3, n_gone != 1 || seq_is(post, 1, post.n, pre, gone, NPOS, T_TTL != 0, now)); // (that exactly one entry goes is C03's clause)
            }
            else
                VF_P(10, 4, seq_is(post, 1, post.n, pre, i, NPOS, T_TTL != 0, now));
        }
        else if (hit_access)
        {
            VF_P(10, 5, post.k[0] == k && seq_is(post, 1, post.n, pre, i, NPOS, T_TTL != 0, now));
        }
        else if (is_find && resident && !live_i)
            VF_P(10, 6, seq_is(post, 0, post.n, pre, i, NPOS, T_TTL != 0, now) || seq_is(post, 0, post.n, pre, NPOS, NPOS, T_TTL != 0, now));
        else if (is_erase && r.ok)
            VF_P(10, 7, seq_is(post, 0, post.n, pre, i, NPOS, T_TTL != 0, now));
        else if (is_clean)
            VF_P(10, 8, seq_is(post, 0, post.n, pre, NPOS, NPOS, T_TTL != 0, now));
        else if (!is_clear)
            VF_P(10, 9, seq_is(post, 0, post.n, pre, NPOS, NPOS, T_TTL != 0, now)); // peeks, misses, rejected calls keep the order
    }
#endif
#if T_POLICY == P_MRU
    // ================= C13 MRU order (last = most recently used) =================
    {
        const bool hit_access = is_find && r.ok && !pk;
        if (is_insert && r.ok)
        {
            VF_P(13, 1, post.n >= 1 && post.k[post.n - 1] == k); // the written key becomes the most recently used
            if (evicting)
                VF_P(13, 2, a_idx(post, pre.k[pre.n - 1]) == NPOS && seq_is(post, 0, post.n - 1, pre, pre.n - 1, NPOS, false, now));
            else
                VF_P(13, 3, seq_is(post, 0, post.n - 1, pre, i, NPOS, false, now));
        }
        else if (hit_access)
            VF_P(13, 4, post.k[post.n - 1] == k && seq_is(post, 0, post.n - 1, pre, i, NPOS, false, now));
        else if (is_erase && r.ok)
            VF_P(13, 5, seq_is(post, 0, post.n, pre, i, NPOS, false, now));
        else
            VF_P(13, 6, seq_is(post, 0, post.n, pre, NPOS, NPOS, false, now));
    }
#endif
#if T_POLICY == P_FIFO
    // ================= C12 FIFO order (index 0 = earliest inserted) =================
    {
        if (is_insert && r.ok && !resident)
        {
            VF_P(12, 1, post.n >= 1 && post.k[post.n - 1] == k); // (re-)inserted keys queue at the tail
            if (evicting)
                VF_P(12, 2, a_idx(post, pre.k[0]) == NPOS && seq_is(post, 0, post.n - 1, pre, 0, NPOS, false, now));
            else
                VF_P(12, 3, seq_is(post, 0, post.n - 1, pre, NPOS, NPOS, false, now));
        }
        else if (is_erase && r.ok)
            VF_P(12, 4, seq_is(post, 0, post.n, pre, i, NPOS, false, now));
        else
            VF_P(12, 5, seq_is(post, 0, post.n, pre, NPOS, NPOS, false, now)); // updates and lookups never change the order
    }
#endif
#if T_POLICY == P_LFU || T_POLICY == P_LFUDA
    // ================= C11 LFU counts =================
    {
        // expected count of pre-entry p after the aging that this call performs (lfuda aging points only)
        const bool aging_point = (T_POLICY == P_LFUDA) && (is_age || evicting);
        uint64_t   ecnt[AMAX];
        for (size_t p = 0; p < AMAX; ++p)
        {
            ecnt[p] = pre.cnt[p];
#if T_POLICY == P_LFUDA
            if (aging_point && p < pre.n && pre.age[p] + pre.tick < now)
                ecnt[p] = (pre.cnt[p] * T_RATIO4) / 4;
#endif
        }
        const bool access = (is_insert && r.ok && resident) || (is_find && r.ok && !pk);
        for (size_t q = 0; q < AMAX; ++q)
            if (q < post.n)
            {
                size_t p = a_idx(pre, post.k[q]);
                if (is_insert && r.ok && !resident && post.k[q] == k)
                    VF_P(11, 1, post.cnt[q] == 1);
                else if (p != NPOS && access && post.k[q] == k)
                    VF_P(11, 2, post.cnt[q] == pre.cnt[p] + 1);
                else if (p != NPOS && !aging_point)
                    VF_P(11, 3, post.cnt[q] == pre.cnt[p]); // unaffected by anything else
            }
        if (op == OP_FIND && r.ok && resident)
            VF_P(11, 4, r.cnt == pre.cnt[i] + (pk ? 0 : 1)); // reported count includes the current access
        if (evicting && n_gone == 1)
            for (size_t p = 0; p < AMAX; ++p)
                if (p < pre.n)
                    VF_P(11, 5, ecnt[gone] <= ecnt[p]); // the victim's count is minimal
    }
#endif
#if T_POLICY == P_LFUDA
    // ================= C14 LFUDA dynamic aging =================
    {
        const int64_t tick        = pre.tick;
        const bool    aging_point = is_age || evicting;
        const bool    access      = (is_insert && r.ok && resident) || (is_find && r.ok && !pk);
        size_t        n_aged      = 0;
        for (size_t p = 0; p < AMAX; ++p)
            if (p < pre.n)
            {
                size_t q    = a_idx(post, pre.k[p]);
                bool   aged = aging_point && pre.age[p] + tick < now;
                if (aged)
                    ++n_aged;
                if (q == NPOS)
                    continue;
                if (access && pre.k[p] == k)
                    VF_P(14, 1, post.age[q] == now); // a use restarts the idle timer
                else if (aged)
                {
                    VF_P(14, 2, post.cnt[q] == (pre.cnt[p] * T_RATIO4) / 4); // count * ratio, rounded down
                    VF_P(14, 3, post.age[q] == now);
                }
                else
                    VF_P(14, 4, post.cnt[q] == pre.cnt[p] && post.age[q] == pre.age[p]);
            }
        if (is_age)
        {
            VF_P(14, 5, r.n == n_aged);
        }
        if (is_insert && r.ok && !resident)
            VF_P(14, 7, qk != NPOS && post.age[qk] == now);
    }
#endif
#if T_POLICY == P_RR
    // ================= C15 (i) random replacement: the victim is one prior resident =================
    if (evicting)
    {
        VF_P(15, 1, n_gone == 1);
        VF_P(15, 2, qk != NPOS && post.n == HCAP);
    }
    else
        VF_P(15, 3, n_gone == ((is_erase && r.ok) ? 1 : 0));
#endif
#if T_TTL != 0 && T_CAPPED
    // ================= C16 expired-first eviction =================
    if (evicting && n_exp_pre > 0)
    {
        for (size_t p = 0; p < AMAX; ++p)
            if (p < pre.n && a_idx(post, pre.k[p]) == NPOS)
                VF_P(16, 1, is_exp(pre, p, now)); // whatever was removed had expired
        for (size_t p = 0; p < AMAX; ++p)
            if (p < pre.n && !is_exp(pre, p, now))
                VF_P(16, 2, a_idx(post, pre.k[p]) != NPOS);
    }
#endif
#if T_TTL != 0
    // ================= C17 clean_expired_values / purge-first =================
    if (is_clean)
    {
        for (size_t q = 0; q < AMAX; ++q)
            if (q < post.n)
                VF_P(17, 1, !is_exp(post, q, now)); // no expired entry left
        for (size_t p = 0; p < AMAX; ++p)
            if (p < pre.n && !is_exp(pre, p, now))
                VF_P(17, 2, a_idx(post, pre.k[p]) != NPOS); // no live entry removed
        VF_P(17, 3, r.n == n_exp_pre && post.n + r.n == pre.n);
        VF_P(17, 4, r.size == n_live(pre, now));
    }
#if T_PURGE
    // ut_map / ut_set purge at the start of every insert, erase and lookup
    if (is_insert || is_erase || is_find)
        for (size_t p = 0; p < AMAX; ++p)
            if (p < pre.n && is_exp(pre, p, now))
            {
                size_t q = a_idx(post, pre.k[p]);
                VF_P(17, 5, q == NPOS || (is_insert && r.ok && pre.k[p] == k)); // gone, unless this very call re-wrote it
            }
#endif
#endif

    // ================= C19 non-interference of peeks, misses, rejected inserts, absent-key erases =================
    {
        const bool no_effect = (is_find && (pk || !r.ok)) || (is_insert && !r.ok) || (is_erase && !r.ok);
        if (no_effect)
        {
#if T_TTL == 0
            VF_P(19, 1, a_eq(post, pre));
#else
            VF_P(19, 2, a_eq_minus_expired(post, pre, now));
#endif
        }
    }

    // ================= C20 clear() =================
    if (is_clear)
    {
        VF_P(20, 1, post.n == 0 && r.size == 0 && r.empty);
        VF_P(20, 2, post.ttl == pre.ttl);
#if T_CAPPED
        VF_P(20, 4, r.cap == HCAP);
#endif
    }

    // ================= vacuity witnesses (PROP == 99): each must be reachable =================
    VF_REACH(1);
    if (is_insert && r.ok && resident) VF_REACH(2);
    if (is_insert && r.ok && !resident) VF_REACH(3);
    if (is_insert && !r.ok) VF_REACH(4);
    if (evicting) VF_REACH(5);
    if (is_find && r.ok) VF_REACH(6);
    if (is_find && !r.ok) VF_REACH(7);
    if (is_erase && r.ok) VF_REACH(8);
    if (T_TTL != 0 && n_exp_pre > 0) VF_REACH(9);
    if (T_TTL != 0 && resident && !live_i) VF_REACH(10);
#if T_POLICY == P_RR
    // C15 (iii): every resident position can be the victim (each of these must be reachable for some draw)
    if (evicting && n_gone == 1)
    {
        if (gone == 0) VF_REACH(20);
        if (HCAP > 1 && gone == 1) VF_REACH(21);
        if (HCAP > 2 && gone == 2) VF_REACH(22);
        if (HCAP > 3 && gone == 3) VF_REACH(23);
    }
#endif
}
