#pragma once
// Relational clauses over TWO containers in the same state (one definition for the CBMC harness k5_rel.cpp and for
// the replay on the real build).  REL_ALPHA is alpha (model build) or alpha_real (real build).
// Requires api_<container>.hpp, clauses.hpp, exec.hpp, ranges.hpp.
#define RM_INSERT 20
#define RM_ERASE 21
#define RM_FIND 22
#define RM_FILL 23
extern "C" {
void __vf_draw_mode(int m); // 0: fresh draws, recorded; 1: replay the recorded draws from the start
}
// C18: c1 gets the range call, c2 the same elements as single calls in order, at the same instant
static inline void range_vs_singles(C& c1, C& c2, int rmethod, const Ev* e, size_t n, uint8_t al, bool pk_in, const Abs& pre, int64_t now)
{
    const bool pk = T_PEEK ? pk_in : false;
    Res        o1[RMAX], o2[RMAX];
    bool       ko = true;
    size_t     n1 = 0, n2 = 0;
    __vf_draw_mode(0);
    if (rmethod == RM_INSERT)
    {
        n1 = x_insert_range(c1, e, n, al);
        __vf_draw_mode(1);
        for (size_t i = 0; i < RMAX; ++i)
            if (i < n)
                n2 += x_insert(c2, e[i].k, e[i].v, al, e[i].ttl) ? 1 : 0;
        VF_P(18, 1, n1 == n2); // the count equals the number of individual successes
    }
    else if (rmethod == RM_ERASE)
    {
        n1 = x_erase_range(c1, e, n);
        for (size_t i = 0; i < RMAX; ++i)
            if (i < n)
                n2 += x_erase(c2, e[i].k) ? 1 : 0;
        VF_P(18, 2, n1 == n2);
    }
    else if (rmethod == RM_FIND)
    {
        n1 = x_find_range(c1, e, n, pk, o1, &ko);
        for (size_t i = 0; i < RMAX; ++i)
            if (i < n)
                x_find(c2, e[i].k, pk, o2[i]);
        VF_P(18, 3, n1 == n && ko); // one result per input key, in input order, duplicates included
        for (size_t i = 0; i < RMAX; ++i)
            if (i < n)
                VF_P(18, 4, o1[i].ok == o2[i].ok && (!o1[i].ok || o1[i].val == o2[i].val));
    }
    else
    {
        x_find_range_fill(c1, e, n, pk, o1, &ko);
        for (size_t i = 0; i < RMAX; ++i)
            if (i < n)
                x_find(c2, e[i].k, pk, o2[i]);
        VF_P(18, 5, ko);
        for (size_t i = 0; i < RMAX; ++i)
            if (i < n)
                VF_P(18, 6, o1[i].ok == o2[i].ok && (!o1[i].ok || o1[i].val == o2[i].val));
    }
    Abs a1, a2;
    REL_ALPHA(c1, a1);
    REL_ALPHA(c2, a2);
    VF_P(18, 7, a_eq(a1, a2)); // exactly the effect of the singles (values, deadlines, counts, both orders)
    VF_P(18, 8, c1.size() == c2.size());
    // the same, split by aspect (other properties' checks read the aspect that concerns them from this query):
    {
        bool keys = a1.n == a2.n, vals = true, dls = true, cnts = true, order = true;
        for (size_t p = 0; p < AMAX; ++p)
            if (p < a1.n)
            {
                size_t q = a_idx(a2, a1.k[p]);
                if (q == NPOS) { keys = false; continue; }
                if (a1.v[p] != a2.v[q]) vals = false;
                if (a1.d[p] != a2.d[q]) dls = false;
                if (a1.cnt[p] != a2.cnt[q] || a1.age[p] != a2.age[q]) cnts = false;
                if (q != p) order = false;
            }
        VF_P(18, 9, keys);   // same resident keys (retention, C03)
        VF_P(18, 10, vals);  // same values (C01)
        VF_P(18, 11, dls);   // same deadlines (C04, C05)
        VF_P(18, 12, order); // same policy order (C10, C12, C13)
        VF_P(18, 13, cnts);  // same use counts and ages (C11, C14)
    }
#if T_PURGE
    // C17, range forms: ut_map / ut_set purge at the start of every range call too: an entry of the pre-state whose
    // deadline is <= now is gone afterwards, unless this very range insert re-wrote its key
    for (size_t p = 0; p < AMAX; ++p)
        if (p < pre.n && pre.d[p] <= now)
        {
            bool rewritten = false;
            if (rmethod == RM_INSERT)
                for (size_t i = 0; i < RMAX; ++i)
                    if (i < n && e[i].k == pre.k[p])
                        rewritten = true;
            VF_P(17, 6, a_idx(a1, pre.k[p]) == NPOS || rewritten);
        }
#else
    (void)pre; (void)now;
#endif
    if (n1 > 0)
        VF_REACH(2);
}
// C20: c1 has just been cleared, c2 is freshly constructed with the same configuration: the same call on both
static inline void twin_step(C& c1, C& c2, const Ev& e)
{
    Res r1, r2;
    __vf_draw_mode(0);
    exec_call(c1, e, r1);
    __vf_draw_mode(1);
    exec_call(c2, e, r2);
    Abs a1, a2;
    REL_ALPHA(c1, a1);
    REL_ALPHA(c2, a2);
    VF_P(20, 10, r1.ok == r2.ok && r1.val == r2.val && r1.cnt == r2.cnt && r1.n == r2.n && r1.size == r2.size && r1.empty == r2.empty && r1.cap == r2.cap);
    VF_P(20, 11, a_eq(a1, a2));
}
