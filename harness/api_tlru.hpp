#pragma once
#include "api_common.hpp"
#ifdef C_IS_UTLRU
#include <cappuccino/utlru_cache.hpp>
#define T_NAME "utlru"
#define T_TTL 2
#define T_HAS_CLEAR 1
#define T_HAS_UPDTTL 1
using C = cappuccino::utlru_cache<uint64_t, VAL_T, cappuccino::thread_safe::TS>;
#define DECL_C(c) C c(std::chrono::milliseconds{cfg_ttl}, HCAP, cfg_mlf)
#else
#include <cappuccino/tlru_cache.hpp>
#define T_NAME "tlru"
#define T_TTL 1
#define T_HAS_CLEAR 0
#define T_HAS_UPDTTL 0
using C = cappuccino::tlru_cache<uint64_t, VAL_T, cappuccino::thread_safe::TS>;
#define DECL_C(c) C c(HCAP, cfg_mlf)
#endif
#define T_POLICY P_LRU
#define T_PEEK 1
#define T_PEEK_KIND 1
#define T_CAPPED 1
#define T_PURGE 0
#define T_HAS_CLEAN 1
#define T_HAS_AGE 0
static bool x_insert(C& c, uint64_t k, uint64_t v, uint8_t a, int64_t ttl)
{
#ifdef C_IS_UTLRU
    return c.insert(k, VAL_T(v), (cappuccino::allow)a);
#else
    return c.insert(std::chrono::milliseconds{ttl}, k, VAL_T(v), (cappuccino::allow)a);
#endif
}
static bool x_erase(C& c, uint64_t k) { return c.erase(k); }
static void x_find(C& c, uint64_t k, bool pk, Res& r)
{
    auto o = c.find(k, pk ? cappuccino::peek::yes : cappuccino::peek::no);
    r.ok   = o.has_value();
    r.val  = r.ok ? val_u(*o) : 0;
    r.cnt  = 0;
}
#ifdef VF_REAL
static uint64_t key_of_slot(C& c, size_t slot)
{
    for (auto it = c.m_keyed_elements.begin(); it != c.m_keyed_elements.end(); ++it)
        if (it->second == slot)
            return it->first;
    return 0xDEAD000000000000ULL + slot;
}
static size_t ttl_pos_of_slot(C& c, size_t slot)
{
    size_t p = 0;
    for (auto it = c.m_ttl_list.begin(); it != c.m_ttl_list.end(); ++it, ++p)
    {
#ifdef C_IS_UTLRU
        if (*it == slot)
#else
        if (it->second == slot)
#endif
            return p;
    }
    return NPOS;
}
static void alpha_real(C& c, Abs& a)
{
    a_clear(a);
    a.n = c.m_used_size;
#ifdef C_IS_UTLRU
    a.ttl = c.m_ttl.count();
#endif
    auto it = c.m_lru_list.begin();
    for (size_t p = 0; p < HCAP && p < a.n && it != c.m_lru_list.end(); ++p, ++it)
    {
        size_t slot = *it;
        if (slot >= c.m_elements.size()) { a.k[p] = 0xDEAD000000000000ULL + p; continue; }
        auto& e = c.m_elements[slot];
        a.k[p]  = key_of_slot(c, slot);
        a.v[p] = val_u(e.m_value);
        a.d[p]  = tp_i(e.m_expire_time);
        a.o2[p] = ttl_pos_of_slot(c, slot);
    }
}
#endif
