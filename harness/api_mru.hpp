#pragma once
#define C_IS_MRU 1
#include "api_lru.hpp"
