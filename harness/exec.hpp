#pragma once
// Execute one public call described by an Ev on container c; collect the result and the observers.
static inline void exec_call(C& c, const Ev& ev, Res& r)
{
    r.ok = false; r.val = 0; r.cnt = 0; r.n = 0;
    __vf_set_now(ev.now);
    const bool pk = T_PEEK ? ev.pk : false;
    switch (ev.op)
    {
        case OP_INSERT: r.ok = x_insert(c, ev.k, ev.v, ev.a, ev.ttl); break;
        case OP_ERASE: r.ok = x_erase(c, ev.k); break;
        case OP_FIND: x_find(c, ev.k, pk, r); break;
#if T_POLICY == P_LFU || T_POLICY == P_LFUDA
        case OP_FIND_PLAIN: x_find_plain(c, ev.k, pk, r); break;
#endif
#if T_HAS_CLEAN
        case OP_CLEAN: r.n = c.clean_expired_values(); break;
#endif
#if T_HAS_AGE
        case OP_AGE: r.n = c.dynamically_age(); break;
#endif
#if T_HAS_CLEAR
        case OP_CLEAR: c.clear(); break;
#endif
#if T_HAS_UPDTTL
        case OP_UPDTTL: c.update_ttl(std::chrono::milliseconds{ev.ttl}); break;
#endif
        default: break;
    }
#ifdef VF_REAL
    r.idx_n = c.m_keyed_elements.size();
#else
    r.idx_n = c.m_keyed_elements.m_size;
#endif
    r.size  = c.size();
    r.empty = c.empty();
#if T_CAPPED
    r.cap = c.capacity();
#else
    r.cap = 0;
#endif
}
// is op a method of this container?
static inline bool op_valid(int op)
{
    if (op == OP_INSERT || op == OP_ERASE || op == OP_FIND) return true;
    if (op == OP_FIND_PLAIN) return T_POLICY == P_LFU || T_POLICY == P_LFUDA;
    if (op == OP_CLEAN) return T_HAS_CLEAN;
    if (op == OP_AGE) return T_HAS_AGE;
    if (op == OP_CLEAR) return T_HAS_CLEAR;
    if (op == OP_UPDTTL) return T_HAS_UPDTTL;
    return false;
}
