// K2: one public call from an arbitrary state satisfying the representation invariant.
// Compiled per (container, OP, HCAP, PROP): -DCONT_HDR="c_lru.hpp" -DOP=0 -DHCAP=2 -DPROP=1 -DTS=no
#include CONT_HDR
#include "clauses.hpp"
#include "exec.hpp"
#ifndef INV_PRE
#define INV_PRE(c) inv(c)
#endif
int64_t last_now; // the latest clock reading any earlier call has seen (part of the abstract state of TTL/aging containers)
int64_t cfg_ttl = 100, cfg_tick = 5;
#ifdef VAL_COUNTED
extern "C" {
int64_t g_live, g_bad; // instance accounting of the Counted value type (see api_common.hpp)
}
#endif
// the (state, call) pair of a counterexample, for trace extraction and lifting
extern "C" {
int64_t  h_last_now, h_pre_ttl, h_pre_tick;
uint64_t h_pre_n, h_pre_k[AMAX], h_pre_v[AMAX], h_pre_cnt[AMAX], h_pre_o2[AMAX];
int64_t  h_pre_d[AMAX], h_pre_age[AMAX];
uint64_t h_op[2], h_k[2], h_v[2], h_a[2], h_pk[2];
int64_t  h_ttl[2], h_now[2];
}

extern "C" int harness()
{
    last_now = 0;
#ifndef VF_REAL
    cfg_mlf = nondet_float(); // every finite positive max_load_factor
    __vf_assume(cfg_mlf > 0.0f && cfg_mlf < 1.0e30f);
#endif
    DECL_C(c);
    VF_P(0, 1, inv(c)); // base case: the constructor establishes the invariant
    // ---- arbitrary pre-state ----
    last_now = nondet_i64();
    __vf_assume(last_now >= 0 && last_now < TMAX);
    SrcNondet s;
    install(c, s);
    __vf_assume(INV_PRE(c));
    Abs pre;
    alpha(c, pre);
#ifdef ASSUME_BOUNDS
    ASSUME_BOUNDS(c, pre);
#endif
#if defined(BUILDER_FRIENDLY) && defined(BUILDER_OK)
    __vf_assume(BUILDER_OK(pre)); // lifting query: start from a state the replay's state builder reaches directly
#endif
#ifdef KF_TTL0 /* known-finding case split (ut_map/ut_set with a configured TTL of exactly 0) */
    if (T_PURGE)
        __vf_assume(KF_TTL0 ? pre.ttl == 0 : pre.ttl > 0);
#endif
    // ---- the call ----
    Ev ev;
    ev.op  = OP;
    ev.now = nondet_i64();
    __vf_assume(ev.now >= last_now && ev.now < TMAX);
    ev.k = nondet_u64();
    ev.v = nondet_u64();
#ifdef VAL_COUNTED
    __vf_assume(ev.v != 0xDEADBEEFDEADBEEFull); // the poison of moved-from instances is never written by the caller
#endif
    ev.a = nondet_u8();
    __vf_assume(ev.a >= 1 && ev.a <= 3);
#ifdef ASSUME_UPDATE /* the update path alone (allow::update), affordable one capacity higher for the heavier containers */
    __vf_assume(ev.a == 2);
#endif
    ev.pk  = nondet_bool();
    ev.ttl = nondet_i64();
    __vf_assume(ev.ttl >= 0 && ev.ttl < TMAX);
    h_last_now = last_now; h_pre_ttl = pre.ttl; h_pre_tick = pre.tick; h_pre_n = pre.n;
    for (size_t p = 0; p < AMAX; ++p)
    {
        h_pre_k[p] = pre.k[p]; h_pre_v[p] = pre.v[p]; h_pre_cnt[p] = pre.cnt[p]; h_pre_d[p] = pre.d[p]; h_pre_age[p] = pre.age[p]; h_pre_o2[p] = pre.o2[p];
    }
    h_op[0] = ev.op; h_k[0] = ev.k; h_v[0] = ev.v; h_a[0] = ev.a; h_pk[0] = ev.pk; h_ttl[0] = ev.ttl; h_now[0] = ev.now;
    Res r;
    exec_call(c, ev, r);
    last_now = ev.now;
#ifndef OP2
    VF_P(0, 2, inv(c)); // inductive step
    Abs post;
    alpha(c, post);
    check_clauses(pre, post, ev, r);
#else
    // K2x2 (lifting of an invariant failure): a second call, of method OP2, after the first one; the clauses are
    // asserted around the second call.  The counterexample (alpha(pre), call 1, call 2) starts in an invariant
    // state, which the state builder of the replay can reach through the public API.
    Abs mid;
    alpha(c, mid);
    Ev ev2;
    ev2.op  = OP2;
    ev2.now = nondet_i64();
    __vf_assume(ev2.now >= ev.now && ev2.now < TMAX);
    ev2.k = nondet_u64();
    ev2.v = nondet_u64();
    ev2.a = nondet_u8();
    __vf_assume(ev2.a >= 1 && ev2.a <= 3);
    ev2.pk  = nondet_bool();
    ev2.ttl = nondet_i64();
    __vf_assume(ev2.ttl >= 0 && ev2.ttl < TMAX);
    h_op[1] = ev2.op; h_k[1] = ev2.k; h_v[1] = ev2.v; h_a[1] = ev2.a; h_pk[1] = ev2.pk; h_ttl[1] = ev2.ttl; h_now[1] = ev2.now;
    Res r2;
    exec_call(c, ev2, r2);
    last_now = ev2.now;
    Abs post;
    alpha(c, post);
    check_clauses(mid, post, ev2, r2);
#endif
    return 0;
}
