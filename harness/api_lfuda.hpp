#pragma once
#define C_IS_LFUDA 1
#include "api_lfu.hpp"
