// K1: every history of KSTEPS public calls from the real constructor, symbolic arguments and clock.
// The clauses of one property (-DPROP) are asserted around every call over alpha(before)/alpha(after).
// A counterexample is a public-API history; it is recorded in the h_* arrays and replayed on the real build.
#include CONT_HDR
#include "clauses.hpp"
#include "exec.hpp"
#ifndef KSTEPS
#define KSTEPS 4
#endif
#ifndef NKEYS
#define NKEYS (HCAP + 2)
#endif
int64_t last_now;
int64_t cfg_ttl = 100, cfg_tick = 5;
// the history, for trace extraction
extern "C" {
int64_t  h_cfg_ttl, h_cfg_tick, h_mlf4 = 4;
uint64_t h_op[KSTEPS], h_k[KSTEPS], h_v[KSTEPS], h_a[KSTEPS], h_pk[KSTEPS];
int64_t  h_ttl[KSTEPS], h_now[KSTEPS];
}

extern "C" int harness()
{
    last_now = 0;
#if T_TTL == 2
    cfg_ttl = nondet_i64();
    __vf_assume(cfg_ttl >= 0 && cfg_ttl < TMAX);
#endif
#if T_POLICY == P_LFUDA
    cfg_tick = nondet_i64();
    __vf_assume(cfg_tick > 0 && cfg_tick < TMAX);
#endif
#ifdef KF_TTL0 /* known-finding case split (ut_map/ut_set constructed with a TTL of exactly 0) */
    if (T_PURGE)
        __vf_assume(KF_TTL0 ? cfg_ttl == 0 : cfg_ttl > 0);
#endif
    h_cfg_ttl  = cfg_ttl;
    h_cfg_tick = cfg_tick;
#if PROP == 8 || PROP == 0
    // C08 quantifies over every finite positive max_load_factor: one below, at and above 1 (the K2 step has it fully symbolic)
    {
        uint8_t m = nondet_u8();
        __vf_assume(m < 3);
        cfg_mlf = m == 0 ? 0.25f : (m == 1 ? 1.0f : 4.0f);
        h_mlf4  = m == 0 ? 1 : (m == 1 ? 4 : 16);
    }
#endif
    DECL_C(c);
    Abs     pre, post;
    int64_t now = 0;
    alpha(c, pre);
    for (int s = 0; s < KSTEPS; ++s)
    {
        Ev ev;
        ev.op = nondet_u8();
        __vf_assume(op_valid(ev.op));
#ifdef LAST_OP
        if (s == KSTEPS - 1)
            __vf_assume(ev.op == LAST_OP);
#endif
        int64_t dt = nondet_i64();
        __vf_assume(dt >= 0 && dt < TMAX);
        now += dt;
        __vf_assume(now < TMAX);
        ev.now = now;
        ev.k   = nondet_u64();
        __vf_assume(ev.k < NKEYS);
        ev.v = nondet_u64();
        ev.a = nondet_u8();
        __vf_assume(ev.a >= 1 && ev.a <= 3);
        ev.pk  = nondet_bool();
        ev.ttl = nondet_i64();
        __vf_assume(ev.ttl >= 0 && ev.ttl < TMAX);
        h_op[s] = ev.op; h_k[s] = ev.k; h_v[s] = ev.v; h_a[s] = ev.a; h_pk[s] = ev.pk; h_ttl[s] = ev.ttl; h_now[s] = ev.now;
        Res r;
        exec_call(c, ev, r);
        last_now = ev.now;
        alpha(c, post);
        check_clauses(pre, post, ev, r);
        pre = post;
    }
    VF_REACH(50); // the end of the history is reachable
    return 0;
}
