#pragma once
#include "api_common.hpp"
#include <cappuccino/fifo_cache.hpp>
#define T_NAME "fifo"
#define T_POLICY P_FIFO
#define T_TTL 0
#define T_PEEK 0
#define T_PEEK_KIND 0
#define T_CAPPED 1
#define T_ITER_FORMS 1
#define T_PURGE 0
#define T_HAS_CLEAN 0
#define T_HAS_CLEAR 0
#define T_HAS_AGE 0
#define T_HAS_UPDTTL 0
using C = cappuccino::fifo_cache<uint64_t, VAL_T, cappuccino::thread_safe::TS>;
#define DECL_C(c) C c(HCAP, cfg_mlf)
static bool x_insert(C& c, uint64_t k, uint64_t v, uint8_t a, int64_t) { return c.insert(k, VAL_T(v), (cappuccino::allow)a); }
static bool x_erase(C& c, uint64_t k) { return c.erase(k); }
static void x_find(C& c, uint64_t k, bool, Res& r)
{
    auto o = c.find(k);
    r.ok   = o.has_value();
    r.val  = r.ok ? val_u(*o) : 0;
    r.cnt  = 0;
}
#ifdef VF_REAL
static void alpha_real(C& c, Abs& a)
{
    a_clear(a);
    size_t p = 0;
    for (auto it = c.m_fifo_list.begin(); it != c.m_fifo_list.end() && p < HCAP; ++it, ++p)
    {
        auto& e = *it;
        if (e.m_keyed_position.has_value())
        {
            uint64_t key = 0xDEAD000000000000ULL + p;
            for (auto m = c.m_keyed_elements.begin(); m != c.m_keyed_elements.end(); ++m)
                if (m->second == it)
                    key = m->first;
            a.k[a.n] = key;
            a.v[a.n] = val_u(e.m_value);
            ++a.n;
        }
    }
}
#endif
