#pragma once
#include "api_common.hpp"
#include <cappuccino/rr_cache.hpp>
#define T_NAME "rr"
#define T_POLICY P_RR
#define T_TTL 0
#define T_PEEK 0
#define T_PEEK_KIND 0
#define T_CAPPED 1
#define T_PURGE 0
#define T_HAS_CLEAN 0
#define T_HAS_CLEAR 0
#define T_HAS_AGE 0
#define T_HAS_UPDTTL 0
using C = cappuccino::rr_cache<uint64_t, VAL_T, cappuccino::thread_safe::TS>;
#define DECL_C(c) C c(HCAP, cfg_mlf)
static bool x_insert(C& c, uint64_t k, uint64_t v, uint8_t a, int64_t) { return c.insert(k, VAL_T(v), (cappuccino::allow)a); }
static bool x_erase(C& c, uint64_t k) { return c.erase(k); }
static void x_find(C& c, uint64_t k, bool, Res& r)
{
    auto o = c.find(k);
    r.ok   = o.has_value();
    r.val  = r.ok ? val_u(*o) : 0;
    r.cnt  = 0;
}
#ifdef VF_REAL
static void alpha_real(C& c, Abs& a)
{
    a_clear(a);
    a.n = c.m_open_list_end;
    for (size_t p = 0; p < HCAP && p < a.n; ++p)
    {
        size_t slot = c.m_open_list[p];
        if (slot >= c.m_elements.size()) { a.k[p] = 0xDEAD000000000000ULL + p; continue; }
        uint64_t key = 0xDEAD000000000000ULL + p;
        for (auto m = c.m_keyed_elements.begin(); m != c.m_keyed_elements.end(); ++m)
            if (m->second == slot)
                key = m->first;
        a.k[p] = key;
        a.v[p] = val_u(c.m_elements[slot].m_value);
    }
}
#endif
