#pragma once
#define C_IS_UTLRU 1
#include "c_tlru.hpp"
