#pragma once
#define C_IS_MRU 1
#include "c_lru.hpp"
