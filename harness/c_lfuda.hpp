#pragma once
#define C_IS_LFUDA 1
#include "c_lfu.hpp"
