#pragma once
#include "api_common.hpp"
#ifdef C_IS_MRU
#include <cappuccino/mru_cache.hpp>
#define CL m_mru_list
#define CE m_mru_end
#define CP m_mru_position
#define T_NAME "mru"
#define T_POLICY P_MRU
using C = cappuccino::mru_cache<uint64_t, VAL_T, cappuccino::thread_safe::TS>;
#else
#include <cappuccino/lru_cache.hpp>
#define CL m_lru_list
#define CE m_lru_end
#define CP m_lru_position
#define T_NAME "lru"
#define T_POLICY P_LRU
using C = cappuccino::lru_cache<uint64_t, VAL_T, cappuccino::thread_safe::TS>;
#endif
#define T_TTL 0
#define T_PEEK 1
#define T_PEEK_KIND 1
#define T_CAPPED 1
#define T_PURGE 0
#define T_HAS_CLEAN 0
#define T_HAS_CLEAR 0
#define T_HAS_AGE 0
#define T_HAS_UPDTTL 0
#define DECL_C(c) C c(HCAP, cfg_mlf)
static bool x_insert(C& c, uint64_t k, uint64_t v, uint8_t a, int64_t) { return c.insert(k, VAL_T(v), (cappuccino::allow)a); }
static bool x_erase(C& c, uint64_t k) { return c.erase(k); }
static void x_find(C& c, uint64_t k, bool pk, Res& r)
{
    auto o = c.find(k, pk ? cappuccino::peek::yes : cappuccino::peek::no);
    r.ok   = o.has_value();
    r.val  = r.ok ? val_u(*o) : 0;
    r.cnt  = 0;
}
// abstraction function through the std API only (used on the real build)
#ifdef VF_REAL
// abstraction function for the real build.  It only traverses the live std containers (never dereferences an
// iterator *stored* by the cache, which may be stale in a broken container): the key of a slot is found by
// scanning the index for the entry that maps to it, i.e. in the direction lookups use.
static uint64_t key_of_slot(C& c, size_t slot)
{
    for (auto it = c.m_keyed_elements.begin(); it != c.m_keyed_elements.end(); ++it)
        if (it->second == slot)
            return it->first;
    return 0xDEAD000000000000ULL + slot;
}
static void alpha_real(C& c, Abs& a)
{
    a_clear(a);
    a.n     = c.m_used_size;
    auto it = c.CL.begin();
    for (size_t p = 0; p < HCAP && p < a.n && it != c.CL.end(); ++p, ++it)
    {
        size_t slot = *it;
        if (slot >= c.m_elements.size()) { a.k[p] = 0xDEAD000000000000ULL + p; continue; }
        a.k[p] = key_of_slot(c, slot);
        a.v[p] = val_u(c.m_elements[slot].m_value);
    }
}
#endif
