#pragma once
// tlru_cache (per-entry ttl, multimap<time_point,size_t> ttl index) and utlru_cache (uniform ttl, list<size_t> ttl list)
#ifdef C_IS_UTLRU
#include "api_utlru.hpp"
#else
#include "api_tlru.hpp"
#endif
#include "vf_inv.hpp"

template<class S>
static void install(C& c, S& s)
{
    vf_install_list_links(c.m_lru_list, s);
    for (size_t a = 1; a <= HCAP; ++a)
        c.m_lru_list.m_pool[a].value = s.u64();
    vf_install_umap(c.m_keyed_elements, s, [&](size_t& m) { m = s.u64(); });
#ifdef C_IS_UTLRU
    vf_install_list_links(c.m_ttl_list, s);
    for (size_t a = 1; a < c.m_ttl_list.m_pool_n; ++a)
        c.m_ttl_list.m_pool[a].value = s.u64();
    c.m_ttl = std::chrono::milliseconds{s.i64()};
#else
    vf_install_otab(c.m_ttl_list, s, [&](TP& t) { t = i_tp(s.i64()); }, [&](size_t& m) { m = s.u64(); });
#endif
    c.m_used_size = s.u64();
    c.m_lru_end.i = s.u64();
    for (size_t i = 0; i < HCAP; ++i)
    {
        auto& e              = c.m_elements.m_data[i];
        e.m_value            = VAL_T(s.u64());
        e.m_expire_time      = i_tp(s.i64());
        e.m_lru_position.i   = s.u64();
        e.m_lru_position.l   = s.b() ? &c.m_lru_list : nullptr;
        e.m_keyed_position.i = s.u64();
        e.m_keyed_position.m = s.b() ? &c.m_keyed_elements : nullptr;
        e.m_ttl_position.i   = s.u64();
#ifdef C_IS_UTLRU
        e.m_ttl_position.l = s.b() ? &c.m_ttl_list : nullptr;
#else
        e.m_ttl_position.m = s.b() ? &c.m_ttl_list : nullptr;
#endif
    }
}
static bool inv(C& c)
{
    const size_t n = HCAP;
    if (c.m_elements.size() != n)
        return false;
    if (!vf_wf_list(c.m_lru_list, n) || c.m_lru_list.m_size != n)
        return false;
    if (!vf_wf_umap(c.m_keyed_elements))
        return false;
#ifdef C_IS_UTLRU
    if (!vf_wf_list(c.m_ttl_list, n))
        return false;
    if (c.m_ttl.count() < 0 || c.m_ttl.count() >= TMAX)
        return false;
#else
    if (!vf_wf_otab(c.m_ttl_list, n, [](const TP& a, const TP& b) { return a < b; }))
        return false;
#endif
    if (c.m_used_size > n || c.m_keyed_elements.m_size != c.m_used_size || c.m_ttl_list.m_size != c.m_used_size ||
        !c.m_keyed_elements.guaranteed(n))
        return false;
    if (c.m_lru_end.l != &c.m_lru_list || c.m_lru_end.i != vf_list_at(c.m_lru_list, c.m_used_size, n))
        return false;
#ifdef C_IS_UTLRU
    { // the ttl list is sorted by deadline (slots distinct follows from the back-pointer check below)
        size_t  t     = c.m_ttl_list.m_pool[0].next;
        int64_t prevd = 0;
        for (size_t p = 0; p < n; ++p)
        {
            if (p >= c.m_used_size)
                break;
            size_t slot = c.m_ttl_list.m_pool[t].value;
            if (slot >= n)
                return false;
            int64_t d = tp_i(c.m_elements.m_data[slot].m_expire_time);
            if (p > 0 && d < prevd)
                return false;
            prevd = d;
            t     = c.m_ttl_list.m_pool[t].next;
        }
    }
#endif
    size_t cur = c.m_lru_list.m_pool[0].next;
    bool   seen[HCAP];
    for (size_t p = 0; p < n; ++p)
        seen[p] = false;
    for (size_t p = 0; p < n; ++p)
    {
        size_t slot = c.m_lru_list.m_pool[cur].value;
        if (slot >= n || seen[slot])
            return false;
        seen[slot] = true;
        if (p < c.m_used_size)
        {
            auto& e = c.m_elements.m_data[slot];
            if (e.m_lru_position.l != &c.m_lru_list || e.m_lru_position.i != cur)
                return false;
            if (e.m_keyed_position.m != &c.m_keyed_elements)
                return false;
            size_t ki = e.m_keyed_position.i;
            if (ki >= c.m_keyed_elements.m_pool_n || !c.m_keyed_elements.m_pool[ki].live)
                return false;
            if (c.m_keyed_elements.m_pool[ki].kv.second != slot)
                return false;
            size_t ti = e.m_ttl_position.i;
#ifdef C_IS_UTLRU
            if (e.m_ttl_position.l != &c.m_ttl_list || ti == 0 || ti >= c.m_ttl_list.m_pool_n || !c.m_ttl_list.m_pool[ti].live)
                return false;
            if (c.m_ttl_list.m_pool[ti].value != slot)
                return false;
#else
            if (e.m_ttl_position.m != &c.m_ttl_list || ti >= c.m_ttl_list.m_pool_n || !c.m_ttl_list.m_pool[ti].live)
                return false;
            if (c.m_ttl_list.m_pool[ti].kv.second != slot || !(c.m_ttl_list.m_pool[ti].kv.first == e.m_expire_time))
                return false;
#endif
            int64_t d = tp_i(e.m_expire_time);
            if (d < 0 || d >= 2 * TMAX)
                return false;
        }
        cur = c.m_lru_list.m_pool[cur].next;
    }
    return true;
}
static void alpha(C& c, Abs& a)
{
    a_clear(a);
    a.n = c.m_used_size;
#ifdef C_IS_UTLRU
    a.ttl = c.m_ttl.count();
#endif
    size_t cur = c.m_lru_list.m_pool[0].next;
    for (size_t p = 0; p < HCAP; ++p)
    {
        if (p < a.n)
        {
            size_t slot = c.m_lru_list.m_pool[cur].value;
            auto&  e    = c.m_elements.m_data[slot];
            a.k[p]      = c.m_keyed_elements.m_pool[e.m_keyed_position.i].kv.first;
            a.v[p]      = val_u(e.m_value);
            a.d[p]      = tp_i(e.m_expire_time);
#ifdef C_IS_UTLRU
            a.o2[p] = vf_list_pos(c.m_ttl_list, e.m_ttl_position.i, HCAP);
#else
            a.o2[p] = vf_otab_pos(c.m_ttl_list, e.m_ttl_position.i, HCAP);
#endif
            cur = c.m_lru_list.m_pool[cur].next;
        }
    }
}
