#pragma once
// lru_cache / mru_cache: vector<element> + list<size_t> partitioned at m_*_end + unordered_map<key,size_t>
#ifdef C_IS_MRU
#include "api_mru.hpp"
#else
#include "api_lru.hpp"
#endif
#include "vf_inv.hpp"

template<class S>
static void install(C& c, S& s)
{
    vf_install_list_links(c.CL, s);
    for (size_t a = 1; a <= HCAP; ++a)
        c.CL.m_pool[a].value = s.u64();
    vf_install_umap(c.m_keyed_elements, s, [&](size_t& m) { m = s.u64(); });
    c.m_used_size = s.u64();
    c.CE.i        = s.u64();
    for (size_t i = 0; i < HCAP; ++i)
    {
        auto& e              = c.m_elements.m_data[i];
        e.m_value            = VAL_T(s.u64());
        e.CP.i               = s.u64();
        e.CP.l               = s.b() ? &c.CL : nullptr;
        e.m_keyed_position.i = s.u64();
        e.m_keyed_position.m = s.b() ? &c.m_keyed_elements : nullptr;
    }
}
static bool inv(C& c)
{
    const size_t n = HCAP;
    if (c.m_elements.size() != n)
        return false;
    if (!vf_wf_list(c.CL, n) || c.CL.m_size != n)
        return false;
    if (!vf_wf_umap(c.m_keyed_elements))
        return false;
    if (c.m_used_size > n || c.m_keyed_elements.m_size != c.m_used_size || !c.m_keyed_elements.guaranteed(n))
        return false;
    if (c.CE.l != &c.CL || c.CE.i != vf_list_at(c.CL, c.m_used_size, n))
        return false;
    size_t cur = c.CL.m_pool[0].next;
    bool   seen[HCAP];
    for (size_t p = 0; p < n; ++p)
        seen[p] = false;
    for (size_t p = 0; p < n; ++p)
    {
        size_t slot = c.CL.m_pool[cur].value;
        if (slot >= n || seen[slot])
            return false;
        seen[slot] = true;
        if (p < c.m_used_size)
        {
            auto& e = c.m_elements.m_data[slot];
            if (e.CP.l != &c.CL || e.CP.i != cur)
                return false;
            if (e.m_keyed_position.m != &c.m_keyed_elements)
                return false;
            size_t ki = e.m_keyed_position.i;
            if (ki >= c.m_keyed_elements.m_pool_n || !c.m_keyed_elements.m_pool[ki].live)
                return false;
            if (c.m_keyed_elements.m_pool[ki].kv.second != slot)
                return false;
        }
        cur = c.CL.m_pool[cur].next;
    }
    return true;
}
static void alpha(C& c, Abs& a)
{
    a_clear(a);
    a.n        = c.m_used_size;
    size_t cur = c.CL.m_pool[0].next;
    for (size_t p = 0; p < HCAP; ++p)
    {
        if (p < a.n)
        {
            size_t slot = c.CL.m_pool[cur].value;
            auto&  e    = c.m_elements.m_data[slot];
            a.k[p]      = c.m_keyed_elements.m_pool[e.m_keyed_position.i].kv.first;
            a.v[p]      = val_u(e.m_value);
            cur         = c.CL.m_pool[cur].next;
        }
    }
}
