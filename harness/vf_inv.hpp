#pragma once
// Well-formedness predicates and state installers for the vstd model containers.
#include "vf.hpp"
#include <list>
#include <map>
#include <unordered_map>

// ---- list ----
template<class T, class S>
inline void vf_install_list_links(std::list<T>& l, S& s)
{
    for (size_t k = 0; k < l.m_pool_n; ++k)
    {
        l.m_pool[k].next = s.u64();
        l.m_pool[k].prev = s.u64();
        if (k != 0)
            l.m_pool[k].live = s.b();
    }
    l.m_size = s.u64();
}
template<class T>
inline size_t vf_list_live_count(std::list<T>& l)
{
    size_t c = 0;
    for (size_t k = 1; k < l.m_pool_n; ++k)
        if (l.m_pool[k].live)
            ++c;
    return c;
}
// circular doubly linked chain through the sentinel with exactly m_size live nodes, every live node on the chain
template<class T>
inline bool vf_wf_list(std::list<T>& l, size_t maxn)
{
    if (l.m_size > maxn)
        return false;
    size_t cur = 0;
    size_t cnt = 0;
    for (size_t step = 0; step <= maxn; ++step)
    {
        size_t nx = l.m_pool[cur].next;
        if (nx >= l.m_pool_n)
            return false;
        if (l.m_pool[nx].prev != cur)
            return false;
        if (nx == 0)
            return cnt == l.m_size && vf_list_live_count(l) == l.m_size;
        if (!l.m_pool[nx].live)
            return false;
        cur = nx;
        ++cnt;
    }
    return false;
}
// pool index of the node at position pos (0-based from the front); the sentinel (0) if pos == size
template<class T>
inline size_t vf_list_at(std::list<T>& l, size_t pos, size_t maxn)
{
    size_t cur = l.m_pool[0].next;
    for (size_t p = 0; p < maxn; ++p)
    {
        if (p == pos)
            return cur;
        if (cur == 0)
            return 0;
        cur = l.m_pool[cur].next;
    }
    return cur;
}
// position of pool node idx, NPOS if not on the chain
template<class T>
inline size_t vf_list_pos(std::list<T>& l, size_t idx, size_t maxn)
{
    size_t cur = l.m_pool[0].next;
    for (size_t p = 0; p < maxn; ++p)
    {
        if (cur == 0)
            return NPOS;
        if (cur == idx)
            return p;
        cur = l.m_pool[cur].next;
    }
    return NPOS;
}

// ---- unordered_map ----  (key installed by the caller-supplied functor because mapped types differ)
template<class K, class V, class S, class F>
inline void vf_install_umap(std::unordered_map<K, V>& m, S& s, F install_mapped)
{
    for (size_t i = 0; i < m.m_pool_n; ++i)
    {
        m.m_pool[i].live                        = s.b();
        const_cast<K&>(m.m_pool[i].kv.first)    = (K)s.u64();
        install_mapped(m.m_pool[i].kv.second);
    }
    m.m_size = s.u64();
}
template<class K, class V>
inline bool vf_wf_umap(std::unordered_map<K, V>& m)
{
    size_t c = 0;
    for (size_t i = 0; i < m.m_pool_n; ++i)
    {
        if (!m.m_pool[i].live)
            continue;
        ++c;
        for (size_t j = 0; j < i; ++j)
            if (m.m_pool[j].live && m.m_pool[j].kv.first == m.m_pool[i].kv.first)
                return false;
    }
    return c == m.m_size;
}

// ---- ordered tab (map / multimap) ----
template<class K, class V, bool M, class S, class FK, class FV>
inline void vf_install_otab(std::__ordered_tab<K, V, M>& m, S& s, FK install_key, FV install_mapped)
{
    for (size_t i = 0; i < m.m_pool_n; ++i)
    {
        m.m_pool[i].live = s.b();
        m.m_pool[i].next = s.u64();
        m.m_pool[i].prev = s.u64();
        install_key(const_cast<K&>(m.m_pool[i].kv.first));
        install_mapped(m.m_pool[i].kv.second);
    }
    m.m_size  = s.u64();
    m.m_first = s.u64();
    m.m_last  = s.u64();
}
// first..last chain of exactly m_size live nodes, prev/next consistent, keys non-decreasing
// (strictly increasing when strict is set: std::map)
template<class K, class V, bool M, class LT>
inline bool vf_wf_otab(std::__ordered_tab<K, V, M>& m, size_t maxn, LT lt, bool strict = false)
{
    if (m.m_size > maxn)
        return false;
    size_t live = 0;
    for (size_t i = 0; i < m.m_pool_n; ++i)
        if (m.m_pool[i].live)
            ++live;
    if (live != m.m_size)
        return false;
    size_t cur = m.m_first, prev = NPOS, cnt = 0;
    for (size_t step = 0; step <= maxn; ++step)
    {
        if (cur == NPOS)
            return cnt == m.m_size && m.m_last == prev;
        if (cur >= m.m_pool_n)
            return false;
        if (!m.m_pool[cur].live)
            return false;
        if (m.m_pool[cur].prev != prev)
            return false;
        if (prev != NPOS)
        {
            if (lt(m.m_pool[cur].kv.first, m.m_pool[prev].kv.first))
                return false;
            if (strict && !lt(m.m_pool[prev].kv.first, m.m_pool[cur].kv.first))
                return false;
        }
        prev = cur;
        cur  = m.m_pool[cur].next;
        ++cnt;
    }
    return false;
}
// position of pool node idx in key order, NPOS if not on the chain
template<class K, class V, bool M>
inline size_t vf_otab_pos(std::__ordered_tab<K, V, M>& m, size_t idx, size_t maxn)
{
    size_t cur = m.m_first;
    for (size_t p = 0; p < maxn; ++p)
    {
        if (cur == NPOS)
            return NPOS;
        if (cur == idx)
            return p;
        cur = m.m_pool[cur].next;
    }
    return NPOS;
}
