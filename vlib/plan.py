# Which solver queries decide which property.
from .core import Query

CONTAINERS = ['lru', 'mru', 'fifo', 'lfu', 'lfuda', 'rr', 'tlru', 'utlru', 'utmap', 'utset']
TTL_CONTS = ['tlru', 'utlru', 'utmap', 'utset']
OP = {'insert': 0, 'erase': 1, 'find': 2, 'clean': 3, 'age': 4, 'clear': 5, 'updttl': 6, 'find_plain': 7}
OPNAME = {v: k for k, v in OP.items()}


def ops_of(cont):
    ops = ['insert', 'erase', 'find']
    if cont in ('lfu', 'lfuda'):
        ops.append('find_plain')
    if cont in TTL_CONTS:
        ops.append('clean')
    if cont == 'lfuda':
        ops.append('age')
    if cont in ('utlru', 'utmap'):
        ops.append('clear')
    if cont == 'utlru':
        ops.append('updttl')
    return ops


# property -> {container: [ops]} for the K2 step queries
def k2_scope(prop):
    allc = {c: ops_of(c) for c in CONTAINERS}
    if prop in (1, 2, 3, 8):
        return allc
    if prop in (4, 5):
        return {c: ops_of(c) for c in TTL_CONTS}
    if prop == 9:
        return {c: ['insert'] for c in CONTAINERS}
    if prop == 10:
        return {c: ops_of(c) for c in ('lru', 'tlru', 'utlru')}
    if prop == 11:
        return {c: ops_of(c) for c in ('lfu', 'lfuda')}
    if prop == 12:
        return {'fifo': ops_of('fifo')}
    if prop == 13:
        return {'mru': ops_of('mru')}
    if prop == 14:
        return {'lfuda': ops_of('lfuda')}
    if prop == 15:
        return {'rr': ops_of('rr')}
    if prop == 16:
        return {c: ['insert'] for c in ('tlru', 'utlru')}
    if prop == 17:
        d = {c: ['clean'] for c in ('tlru', 'utlru')}
        d.update({c: ['clean', 'insert', 'erase', 'find'] for c in ('utmap', 'utset')})
        return d
    if prop == 19:
        return {c: [o for o in ops_of(c) if o in ('insert', 'erase', 'find', 'find_plain')] for c in CONTAINERS}
    if prop == 20:
        return {c: ['clear'] for c in ('utlru', 'utmap')}
    return {}


# measured cost classes (seconds at N=2) used only to order the work queue
WEIGHT = {'tlru': 4, 'utlru': 4, 'utmap': 6, 'utset': 5, 'lfuda': 6, 'lfu': 4, 'fifo': 3, 'lru': 1, 'mru': 1, 'rr': 1}


def k2_query(cont, op, n, prop, ts='no', timeout=300, extra=None, tag='', op2=None):
    """prop: 0 = invariant base+step with vstd contracts asserted, 99 = vacuity witness, 8 = contracts + CBMC
    standard checks, otherwise the clauses of that property (vstd contract checks become assumptions: paths on
    which a std precondition is violated belong to C08 / the invariant query)."""
    defs = {'CONT_HDR': '"c_%s.hpp"' % cont, 'OP': OP[op], 'HCAP': n, 'PROP': prop, 'TS': ts,
            'VSTD_TAB_MAX': n + 1, 'VSTD_LIST_MAX': n + 1}
    if extra:
        defs.update(extra)
    if op2 is not None:
        defs['OP2'] = OP[op2]
        tag += '_then_' + op2
    cb = []
    if prop not in (0, 8):
        cb.append('VF_CHECK_ASSUME')
    name = 'k2_%s_%s_n%d_p%d_%s%s' % (cont, op, n, prop, ts, tag)
    q = Query(name, 'k2_step.cpp', defs, unwind=n + 4, cbmc_defines=cb, timeout=timeout,
              cbmc_flags=(['--trace'] if prop != 99 else []),
              standard_checks=(prop == 8),
              meta={'kind': 'k2' if op2 is None else 'k2x2', 'cont': cont, 'op': op, 'op2': op2, 'n': n, 'prop': prop, 'ts': ts,
                    'mem_gb': {1: 1, 2: 3, 3: 6}.get(n, 10) if cont in ('lfuda', 'utmap', 'utset', 'tlru', 'utlru', 'lfu') else {1: 1, 2: 1, 3: 3}.get(n, 8),
                    'weight': WEIGHT.get(cont, 2) * (8 ** (n - 1)) * (2 if op == 'insert' else 1)})
    return q


K1_MEM = {'lru': 1, 'mru': 1, 'rr': 1, 'fifo': 1, 'tlru': 3, 'utlru': 3, 'lfu': 4, 'lfuda': 6, 'utmap': 5, 'utset': 4}


def k1_query(cont, n, ksteps, prop, ts='no', timeout=600, extra=None, tag=''):
    """bounded history from the real constructor; keys range over a small universe (the code only compares keys)"""
    nkeys = n + 1 if cont in ('utmap', 'utset') else n + 2
    defs = {'CONT_HDR': '"c_%s.hpp"' % cont, 'HCAP': n, 'KSTEPS': ksteps, 'PROP': prop, 'TS': ts, 'NKEYS': nkeys,
            'VSTD_TAB_MAX': n + 1, 'VSTD_LIST_MAX': n + 1}
    if extra:
        defs.update(extra)
    cb = []
    if prop not in (0, 8):
        cb.append('VF_CHECK_ASSUME')
    name = 'k1_%s_n%d_k%d_p%d_%s%s' % (cont, n, ksteps, prop, ts, tag)
    return Query(name, 'k1_hist.cpp', defs, unwind=max(ksteps + 1, n + 4), cbmc_defines=cb, timeout=timeout,
                 cbmc_flags=(['--trace'] if prop != 99 else []),
                 standard_checks=(prop == 8),
                 meta={'kind': 'k1', 'cont': cont, 'n': n, 'k': ksteps, 'prop': prop, 'ts': ts,
                       'mem_gb': K1_MEM.get(cont, 2) * max(1, ksteps - 2),
                       'weight': WEIGHT.get(cont, 2) * (8 ** (n - 1)) * ksteps * 4})


# ---- K3: lock coverage of every public method of the thread_safe::yes instantiation
K3_METHODS = {'size': 10, 'empty': 11, 'capacity': 12, 'insert_range': 20, 'erase_range': 21, 'find_range': 22, 'find_range_fill': 23}


def k3_methods(cont):
    ms = [(op, OP[op]) for op in ops_of(cont)]
    ms += [('size', 10), ('empty', 11)]
    if cont not in ('utmap', 'utset'):
        ms.append(('capacity', 12))
    ms += [('insert_range', 20), ('erase_range', 21), ('find_range', 22), ('find_range_fill', 23)]
    if cont in ITER_CONTS:
        ms += sorted(ITER_METHODS.items(), key=lambda kv: kv[1])
    return ms


def k3_query(cont, method, mid, n, prop, rlen=2, timeout=300):
    defs = {'CONT_HDR': '"c_%s.hpp"' % cont, 'METHOD': mid, 'HCAP': n, 'PROP': prop, 'TS': 'yes', 'RLEN': rlen, 'RMAX': max(rlen, 1),
            'VSTD_TAB_MAX': n + 1, 'VSTD_LIST_MAX': n + 1}
    name = 'k3_%s_%s_n%d_r%d_p%d' % (cont, method, n, rlen, prop)
    return Query(name, 'k3_lock.cpp', defs, hooks=('lock_hooks.c',), unwind=max(n + 5, 10), timeout=timeout,
                 ir2c_flags=['--instrument-access'],
                 meta={'kind': 'k3', 'cont': cont, 'method': method, 'n': n, 'prop': prop, 'ts': 'yes', 'rlen': rlen,
                       'mem_gb': 2 if n <= 2 else 5, 'weight': WEIGHT.get(cont, 2) * (8 ** (n - 1)) * (3 if mid >= 20 else 1)})


# ---- K5: relational two-copy queries
RMETHODS = {'insert_range': 20, 'erase_range': 21, 'find_range': 22, 'find_range_fill': 23}
# fifo_cache alone also publishes the iterator-pair overloads the range forms delegate to; find(b, e) with the distance argument
# left at its default is a path no range form reaches
ITER_METHODS = {'insert_it': 24, 'erase_it': 25, 'find_it': 26, 'find_fill_it': 27}
ITER_CONTS = ('fifo',)
RM_ALL = dict(RMETHODS, **ITER_METHODS)


def rmethods(cont):
    return list(RMETHODS) + (list(ITER_METHODS) if cont in ITER_CONTS else [])


def k5_query(cont, mode, n, prop, rmethod=None, rlen=2, ts='no', timeout=600, extra=None, tag=''):
    defs = {'CONT_HDR': '"c_%s.hpp"' % cont, 'MODE': mode, 'HCAP': n, 'PROP': prop, 'TS': ts, 'RLEN': rlen, 'RMAX': max(rlen, 1),
            'RMETHOD': RM_ALL.get(rmethod, 0), 'VSTD_TAB_MAX': n + 1, 'VSTD_LIST_MAX': n + 1}
    if extra:
        defs.update(extra)
    cb = [] if prop == 0 else ['VF_CHECK_ASSUME']
    name = 'k5_%s_m%d_%s_n%d_r%d_p%d_%s%s' % (cont, mode, rmethod or 'x', n, rlen, prop, ts, tag)
    heavy = cont in ('lfuda', 'utmap', 'utset', 'tlru', 'utlru', 'lfu')
    return Query(name, 'k5_rel.cpp', defs, hooks=('k5_hooks.c',), unwind=n + 5, cbmc_defines=cb, timeout=timeout,
                 cbmc_flags=(['--trace'] if prop != 99 else []),
                 meta={'kind': 'k5', 'cont': cont, 'mode': mode, 'rmethod': rmethod, 'n': n, 'prop': prop, 'ts': ts, 'rlen': rlen,
                       'mem_gb': (6 if heavy else 2) * (1 if n <= 2 else 3),
                       'weight': WEIGHT.get(cont, 2) * (8 ** (n - 1)) * (6 if rmethod in ('insert_range', 'insert_it') else 2)})


def counted_query(cont, n, ksteps, prop, timeout=600):
    """C08: instance-counting value type through construction, K symbolic calls, destruction"""
    nkeys = n + 1 if cont in ('utmap',) else n + 2
    defs = {'CONT_API': '"api_%s.hpp"' % cont, 'HCAP': n, 'KSTEPS': ksteps, 'PROP': prop, 'TS': 'no', 'NKEYS': nkeys,
            'VSTD_TAB_MAX': n + 1, 'VSTD_LIST_MAX': n + 1}
    name = 'cnt_%s_n%d_k%d_p%d' % (cont, n, ksteps, prop)
    return Query(name, 'k1_counted.cpp', defs, unwind=max(ksteps + 1, n + 4), timeout=timeout, standard_checks=(prop == 8),
                 cbmc_defines=([] if prop == 8 else ['VF_CHECK_ASSUME']),
                 meta={'kind': 'cnt', 'cont': cont, 'n': n, 'k': ksteps, 'prop': prop, 'ts': 'no',
                       'mem_gb': K1_MEM.get(cont, 2) * max(1, ksteps - 1), 'weight': WEIGHT.get(cont, 2) * 64 * ksteps})
