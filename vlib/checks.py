# Property checks: plan -> solver queries -> interpretation -> lifting/replay -> evidence.
import hashlib, json, os, re, sys, time, threading
from . import core, plan
from .core import ROOT

TIERS = {
    'quick': {'k2_ns': [1, 2], 'k2_ns_light': [1, 2, 3], 'k2_timeout': 450, 'k1_timeout': 480,
              'k1': {'lru': 5, 'mru': 5, 'rr': 6, 'fifo': 4, 'lfu': 0, 'tlru': 3, 'utlru': 3, 'lfuda': 0, 'utmap': 0, 'utset': 0},
              'k1_n': 2, 'lift_extra': 2, 'lift_timeout': 420},
    'thorough': {'k2_ns': [1, 2, 3], 'k2_ns_light': [1, 2, 3, 4], 'k2_timeout': 3600, 'k1_timeout': 3600,
                 'k1': {'lru': 7, 'mru': 7, 'rr': 8, 'fifo': 6, 'lfu': 3, 'tlru': 4, 'utlru': 4, 'lfuda': 2, 'utmap': 3, 'utset': 3},
                 'k1_n': 2, 'lift_extra': 2, 'lift_timeout': 3600},
}
PROP_TITLES = {}
LIGHT = ('lru', 'mru', 'fifo', 'rr')  # containers whose step queries stay cheap one capacity higher


def ts_modes(n, tier):
    """thread_safe instantiations verified at capacity n ('both modes' of the quantifier)"""
    if tier == 'quick':
        return ['no'] if n == 1 else ['yes']
    return ['no', 'yes'] if n == 2 else ['no']


def load_known():
    known, fixed = [], []
    p = os.path.join(ROOT, 'known_findings.txt')
    if os.path.exists(p):
        for line in open(p):
            line = line.strip()
            m = re.match(r'finding:\s+property=(C\d+)\s+key=(\S+)\s+(.*)', line)
            if m:
                known.append({'prop': m.group(1), 'key': m.group(2), 'what': m.group(3)})
            m = re.match(r'fixed:\s+property=(C\d+)\s+(\S+)\s+(.*)', line)
            if m:
                fixed.append({'prop': m.group(1), 'commit': m.group(2), 'what': m.group(3)})
    return known, fixed


class Evidence:
    def __init__(self, num, tier, seed):
        self.pid = 'C%02d' % num
        self.tier = tier
        self.seed = seed
        self.t0 = time.time()
        self.obligations = 0
        self.discharged = 0
        self.queries = []
        self.samples = []
        self.notes = []
        self.violations = 0
        self.known = []
        self.inconclusive = []
        self.functions = set()
        self.bounds = {}
        self.assumptions = []
        self.traces_validated = 0
        self.nontrivial = set()
        self.solver_secs = 0.0
        self.peak_rss_mb = 0
        self.cache_hits = 0
        self.replays = []
        self.extra = {}

    def add_query(self, q, role):
        r = q.result
        self.queries.append({'name': q.name, 'role': role, 'status': r.status, 'secs': r.secs, 'rss_mb': r.rss_kb // 1024,
                             'checks': r.n_checks, 'failed': r.n_failed, 'cached': r.cache_hit, 'note': r.note[:300],
                             'sat_vars': r.vars, 'sat_clauses': r.clauses, 'ssa_steps': r.steps, 'vccs_after_simplification': r.vccs})
        self.solver_secs += r.secs
        self.peak_rss_mb = max(self.peak_rss_mb, r.rss_kb // 1024)
        if r.cache_hit:
            self.cache_hits += 1
        if q.c_path and os.path.exists(q.c_path) and len(self.functions) < 400:
            try:
                for m in re.finditer(r'(?m)^[A-Za-z_][^\n;=]*?\b(_ZN?\w*cappuccino\w+)\(', open(q.c_path).read()):
                    self.functions.add(m.group(1))
            except Exception:
                pass

    def write(self):
        cov = {
            'evaluations': len(self.queries),
            'distinct_nontrivial': len(self.nontrivial),
            'rule': 'one evaluation = one CBMC (SAT) query over the C translation of the LLVM IR of the real headers; '
                    'a query is counted non-trivial when its vacuity-witness twin reached every case split it names '
                    '(each witness assertion came back violated) and distinct by (harness, container, method, capacity, '
                    'thread_safe mode, property)',
            'obligations': self.obligations, 'discharged': self.discharged,
            'traces_validated_against_impl': self.traces_validated,
            'checker_cmd': 'cbmc <generated.c> hooks/*.c --function harness --unwind N --unwinding-assertions '
                           '--no-malloc-may-fail --drop-unused-functions [--no-standard-checks]',
            'trusted_base': ['clang++-14 front end and -O1 pipeline', 'ir2c (validated per run by the native differential)',
                             'vstd contract model of libstdc++ (validated per run by the native differential)',
                             'CBMC 6.11 + MiniSat', 'the representation invariants and abstraction functions in harness/c_*.hpp'],
            'samples': self.samples[:12],
            'functions_encoded': sorted(self.functions)[:400],
            'bounds': self.bounds,
            'queries': self.queries,
            'solver_seconds': round(self.solver_secs, 1),
            'peak_rss_mb': self.peak_rss_mb,
            'verdict_cache_hits': self.cache_hits,
            'inconclusive': self.inconclusive,
            'known_findings_reported': self.known,
            'replays_on_real_build': self.replays,
            'notes': self.notes,
            'exhaustive': False,
        }
        cov.update(self.extra)
        d = {'property_id': self.pid, 'tier': self.tier, 'seed': self.seed, 'level': 'model_checking', 'coverage': cov,
             'assumptions': self.assumptions, 'wall_s': round(time.time() - self.t0, 1), 'violations': self.violations}
        os.makedirs(os.path.join(ROOT, 'evidence'), exist_ok=True)
        p = os.path.join(ROOT, 'evidence', self.pid + '.json')
        json.dump(d, open(p + '.tmp', 'w'), indent=1)
        os.replace(p + '.tmp', p)


COMMON_ASSUMPTIONS = [
    'instantiation: key_type = value_type = uint64_t (ut_set: key only)',
    'allocation never fails (--no-malloc-may-fail); keys, values 64-bit symbolic; allow, peek symbolic',
    'clock readings non-decreasing, clock readings and TTLs in [0, 2^40) ticks; lfuda use counts < 2^16, tick in (0, 2^40), ratio 1/2',
    'std library replaced by the vstd contract model (list, unordered_map, map, multimap, vector, optional, chrono, random, mutex)',
    'K2: pre-state = any state satisfying the representation invariant of harness/c_<container>.hpp at the stated capacity',
    'K1: histories start at the real constructor; keys range over capacity+2 distinct values (the code only compares keys)',
    'paths on which a std precondition is violated are cut in property queries and asserted in the invariant (PROP=0) and C08 queries',
]


def is_kf_case(num, cont):
    return num == 2 and cont in ('utmap', 'utset')


def k2_queries(num, tier, only=None):
    cfg = TIERS[tier]
    scope = plan.k2_scope(num)
    qs = []
    for cont, ops in scope.items():
        if only and cont not in only:
            continue
        for n in (cfg['k2_ns_light'] if cont in LIGHT else cfg['k2_ns']):
            for ts in ts_modes(n, tier):
                # the invariant must be inductive over EVERY method of the container (a method outside the property's own
                # scope can still break the state the property's clauses rely on); the clauses are asserted on the scope
                for op in plan.ops_of(cont):
                    if n >= 3 and op == 'insert' and cont in ('lfuda', 'utmap', 'utset'):
                        continue  # measured: no verdict within the 1 h per-query limit (stated in bounds.outside)
                    for p in ([num, 0, 99] if num != 0 else [0, 99]):
                        if p == num and op not in ops:
                            continue
                        extra, tag = None, ''
                        if is_kf_case(num, cont) and p == num and op == 'insert':
                            extra = {'KF_TTL0': 0}; tag = '_ttlpos'  # the TTL == 0 case is the known-finding probe
                        qs.append(plan.k2_query(cont, op, n, p, ts, timeout=cfg['k2_timeout'], extra=extra, tag=tag))
                    if is_kf_case(num, cont) and op == 'insert' and op in ops:
                        q = plan.k2_query(cont, op, n, num, ts, timeout=cfg['k2_timeout'], extra={'KF_TTL0': 1}, tag='_ttl0')
                        q.meta['kf_probe'] = 'ut-ttl0'
                        qs.append(q)
        # C16: a dead entry that is neither the coldest nor the second-coldest of the recency order needs three residents
        if num == 16 and cont in ('tlru', 'utlru') and tier == 'quick':
            for p in (16, 99):
                qs.append(plan.k2_query(cont, 'insert', 3, p, 'yes', timeout=900))
        # C14: the aging arithmetic with ratios other than 1/2 (0.25 and 0.75 are exact in float, and 1 - 1/2 == 1/2 hides
        # e.g. a complemented ratio): the dynamically_age step at capacity 2 (the eviction path ages through the same
        # private routine); the thorough tier repeats the evicting insert as well
        if num == 14 and cont == 'lfuda':
            for r4 in (1, 3):
                for op in (['age'] if tier == 'quick' else ['age', 'insert']):
                    for p in (14, 99):
                        qs.append(plan.k2_query('lfuda', op, 2, p, 'yes', timeout=cfg['k2_timeout'], extra={'T_RATIO4': r4}, tag='_ratio%d' % r4))
        # one capacity higher for the cheap methods of the heavier containers, invariant and witness only: a back-pointer
        # slip in erase / lookup paths that needs a free slot *and* two other residents (capacity 3) shows here
        if cont not in LIGHT and tier == 'quick':
            for op in plan.ops_of(cont):
                if op in ('erase', 'find', 'clean', 'clear', 'updttl'):
                    for p in (0, 99):
                        qs.append(plan.k2_query(cont, op, 3, p, 'yes', timeout=cfg['k2_timeout']))
        # the UPDATE path of insert (allow::update) one capacity higher for the three containers whose full insert step gets no
        # verdict there: re-filing an updated entry among two others (ties, an entry shielded behind a re-filed one) needs
        # three residents
        if cont not in LIGHT and (tier == 'quick' or cont in ('lfuda', 'utmap', 'utset')):
            for p in (0, 99):
                qs.append(plan.k2_query(cont, 'insert', 3, p, 'yes', timeout=cfg['k2_timeout'], extra={'ASSUME_UPDATE': 1}, tag='_upd'))
        if cont == 'lfu' and tier == 'quick':  # the full insert step of lfu is affordable at three residents (invariant + witness)
            for p in (0, 99):
                qs.append(plan.k2_query(cont, 'insert', 3, p, 'yes', timeout=cfg['k2_timeout']))
    return qs


def counted_k2_queries(num, tier, only=None):
    """C01 also quantifies over heap-owning value types: the insert and lookup steps are repeated with the instance-counting
    value type, whose moved-from instances are poisoned, so that a value moved out twice (invisible with uint64_t) is seen as
    a stored value that is not the one written"""
    if num != 1:
        return []
    cfg = TIERS[tier]
    qs = []
    for cont in plan.CONTAINERS:
        if cont == 'utset' or (only and cont not in only):
            continue
        for op in ('insert', 'find'):
            for p in (1, 99):
                q = plan.k2_query(cont, op, 2, p, 'no', timeout=cfg['k2_timeout'], extra={'VAL_COUNTED': 1}, tag='_counted')
                qs.append(q)
    return qs


def k1_queries(num, tier, only=None):
    cfg = TIERS[tier]
    qs = []
    for cont in plan.k2_scope(num):
        if only and cont not in only:
            continue
        n, k = cfg['k1_n'], cfg['k1'][cont]
        ts = 'no'
        if k == 0 and not is_kf_case(num, cont):
            continue
        for p in ((num, 99) if k else ()):
            extra, tag = None, ''
            if is_kf_case(num, cont) and p == num:
                extra = {'KF_TTL0': 0}; tag = '_ttlpos'
            qs.append(plan.k1_query(cont, n, k, p, ts, timeout=cfg['k1_timeout'], extra=extra, tag=tag))
        if is_kf_case(num, cont):
            q = plan.k1_query(cont, n, 2, num, ts, timeout=cfg['k1_timeout'], extra={'KF_TTL0': 1}, tag='_ttl0')
            q.meta['kf_probe'] = 'ut-ttl0'
            qs.append(q)
    return qs


# Range forms: the two-copy query of C18 (range call vs the same singles) also carries the obligations that other
# properties place on range forms; their checks run the SAME query (same solver input, shared through the verdict cache) and read
# the clause ids that concern them.
RANGE_ASPECTS = {
    1: (('find_range', 'find_range_fill', 'insert_range'), (18003, 18004, 18005, 18006, 18010), None),
    3: (('insert_range', 'erase_range'), (18009,), None),
    4: (('find_range', 'find_range_fill', 'insert_range'), (18004, 18006, 18011), plan.TTL_CONTS),
    5: (('find_range', 'find_range_fill', 'insert_range'), (18004, 18006, 18011), plan.TTL_CONTS),
    9: (('insert_range',), (18001, 18009, 18010, 18011), None),
    10: (('find_range', 'find_range_fill', 'insert_range'), (18012,), ('lru', 'tlru', 'utlru')),
    11: (('find_range', 'find_range_fill', 'insert_range'), (18013,), ('lfu', 'lfuda')),
    12: (('find_range', 'find_range_fill', 'insert_range', 'erase_range'), (18012,), ('fifo',)),
    13: (('find_range', 'find_range_fill', 'insert_range'), (18012,), ('mru',)),
}


def range_aspect_queries(num, tier, only=None):
    if num not in RANGE_ASPECTS:
        return []
    rms, ids, conts = RANGE_ASPECTS[num]
    qs = []
    for q in k5_queries(18, tier, only):
        if q.meta.get('kf_probe'):
            continue  # the TTL == 0 probe belongs to C18's own check
        if q.meta['rmethod'] in rms and (conts is None or q.meta['cont'] in conts):
            q.meta['aspect_ids'] = ids
            qs.append(q)
    return qs


def k5_queries(num, tier, only=None):
    qs = []
    heavy = ('lfu', 'lfuda', 'utmap', 'utset', 'tlru', 'utlru')
    to = TIERS[tier]['k2_timeout'] * 2
    if num == 18:
        for cont in plan.CONTAINERS:
            if only and cont not in only:
                continue
            ns = [2] if (tier == 'quick' or cont in heavy) else [2, 3]
            combos = []
            for n in ns:
                for rm in plan.rmethods(cont):
                    if tier == 'quick':
                        rlens = [1] if (cont in heavy and rm == 'insert_range') else [2]
                    else:
                        rlens = [2] if cont in heavy else [2, 3]
                    for rlen in rlens:
                        if cont == 'lfuda' and rm == 'insert_range' and tier == 'quick':
                            combos.append((1, rm, 1))  # measured: the capacity-2 query gets no verdict within the quick limit
                        else:
                            combos.append((n, rm, rlen))
            # two-element range inserts of the heavier containers at capacity 1 (the second element evicts / follows the first):
            # affordable, and enough to see e.g. a TTL or an allow mode taken from the first element only
            if cont in heavy and cont != 'lfuda' and tier == 'quick':
                combos.append((1, 'insert_range', 2))
            for n, rm, rlen in combos:
                ut_split = cont in ('utmap', 'utset') and rm == 'insert_range' and rlen >= 2
                for p in (18, 99):
                    qs.append(plan.k5_query(cont, 1, n, p, rmethod=rm, rlen=rlen, timeout=to,
                                            extra=({'KF_TTL0': 0} if (ut_split and p == 18) else None), tag=('_ttlpos' if (ut_split and p == 18) else '')))
                if ut_split and num == 18:
                    q = plan.k5_query(cont, 1, n, 18, rmethod=rm, rlen=rlen, timeout=to, extra={'KF_TTL0': 1}, tag='_ttl0')
                    q.meta['kf_probe'] = 'ut-ttl0'
                    qs.append(q)
    elif num == 17:
        # the purge-first rule of ut_map / ut_set also binds their range forms (clause 17006 in rel_clauses.hpp)
        for cont in ('utmap', 'utset'):
            if only and cont not in only:
                continue
            for rm in plan.RMETHODS:
                rlen = 1 if (rm == 'insert_range' and tier == 'quick') else 2
                for p in (17, 99):
                    qs.append(plan.k5_query(cont, 1, 2, p, rmethod=rm, rlen=rlen, timeout=to))
    elif num == 15:
        if not only or 'rr' in only:
            for n in ([2, 3] if tier == 'quick' else [2, 3, 4]):
                for p in (15, 99):
                    qs.append(plan.k5_query('rr', 2, n, p, timeout=to))
    elif num == 20:
        for cont in ('utlru', 'utmap'):
            if only and cont not in only:
                continue
            for p in (20, 99):
                qs.append(plan.k5_query(cont, 3, 2, p, timeout=to * 2))
    return qs


COUNTED_K = {'quick': {'lru': 3, 'mru': 3, 'fifo': 3, 'rr': 3, 'tlru': 2, 'utlru': 2, 'lfu': 2, 'lfuda': 1, 'utmap': 2},
             'thorough': {'lru': 5, 'mru': 5, 'fifo': 5, 'rr': 5, 'tlru': 3, 'utlru': 3, 'lfu': 3, 'lfuda': 2, 'utmap': 3}}


def counted_queries(num, tier, only=None):
    if num != 8:
        return []
    qs = []
    for cont, k in COUNTED_K[tier].items():
        if only and cont not in only:
            continue
        for p in (8, 99):
            qs.append(plan.counted_query(cont, 2, k, p, timeout=TIERS[tier]['k1_timeout']))
    return qs


def witness_ok(ev, q):
    r = q.result
    if r.status != 'fail':
        ev.notes.append('witness twin %s: %s %s' % (q.name, r.status, r.note))
        return False
    ok = True
    seen = False
    for k, v in r.asserts.items():
        if isinstance(k, int) and k // 1000 == 99:
            seen = True
            if v != 'FAILURE':
                ok = False
                ev.notes.append('vacuity: witness %d of %s unreachable' % (k, q.name))
    return ok and seen


def prop_ids(r, p):
    return [k for k in r.asserts if (isinstance(k, int) and k // 1000 == p) or
            (not isinstance(k, int) and p in (0, 8) and 'unwinding assertion' not in k)]


def interpret(ev, num, queries, kind):
    """account obligations of all queries of one kind; returns failing (query, ids)"""
    groups = {}
    for q in queries:
        if q.meta.get('kind') != kind:
            continue
        m = q.meta
        groups.setdefault((m['cont'], m.get('op'), m['n'], m.get('k'), m['ts'], m.get('mode'), m.get('rmethod'), m.get('rlen')), []).append(q)
    failures = []
    for key, qs in sorted(groups.items(), key=lambda kv: str(kv[0])):
        wit_ok = True
        for q in qs:
            if q.meta['prop'] == 99:
                ev.add_query(q, 'witness')
                wit_ok = witness_ok(ev, q) and wit_ok
        for q in qs:
            p = q.meta['prop']
            if p == 99 or q.meta.get('kf_probe'):
                continue
            ev.add_query(q, 'invariant' if p == 0 else ('range form (C18 query, aspect ids %s)' % (q.meta['aspect_ids'],) if q.meta.get('aspect_ids') else 'property'))
            r = q.result
            ids = prop_ids(r, p)
            if q.meta.get('aspect_ids'):
                ids = [k for k in ids if k in q.meta['aspect_ids']]
            if r.status == 'pass':
                ev.obligations += max(1, len(ids))
                if wit_ok:
                    ev.discharged += max(1, len(ids))
                    ev.nontrivial.add(q.name)
            elif r.status == 'fail':
                bad = [k for k in ids if r.asserts[k] == 'FAILURE']
                ev.obligations += max(1, len(ids))
                ev.discharged += len(ids) - len(bad)
                failures.append((q, bad))
            else:
                ev.obligations += 1
                ev.inconclusive.append('%s: %s %s' % (q.name, r.status, r.note[:200]))
                if r.status == 'error':
                    raise core.ToolError('%s: %s' % (q.name, r.note))
    return failures


def lift_and_replay(ev, num, q, clause_prop=None):
    """K1 counterexample -> public-API history -> replay on the real build.  Returns (reproduced, replay_path, info)"""
    m = q.meta
    vals = q.result.hist
    if vals is None:
        vals = core.parse_history(core.cbmc_trace(q))
    if 'h_op' not in vals:
        return False, None, {'error': 'no history in trace'}
    if m['kind'] == 'k1':
        lines = core.history_lines(vals, m['k'])
    elif m['kind'] == 'k5' and m['mode'] == 1:
        lines = core.state_lines(vals, m['rlen'], 'kind range %d %d' % (plan.RM_ALL[m['rmethod']], m['rlen']))
    elif m['kind'] == 'k5' and m['mode'] == 3:
        lines = core.state_lines(vals, 2, 'kind twin')
    else:
        # an invariant failure violates no clause by itself: let the replay search short continuations on the real build
        lines = core.state_lines(vals, 2 if m['kind'] == 'k2x2' else 1, explore=(4 if m.get('prop') == 0 else 0))
    cp = clause_prop if clause_prop is not None else num
    variant = 'san' if num == 8 else 'plain'
    ratio = q.defines.get('T_RATIO4')
    counted = ' counted=1' if q.defines.get('VAL_COUNTED') else ''
    hdr = '# cont=%s n=%d ts=%s prop=%d variant=%s%s%s' % (m['cont'], m['n'], m['ts'], cp, variant,
                                                            (' ratio4=%s' % ratio) if ratio is not None else '', counted)
    body = '\n'.join(lines) + '\n'
    h = hashlib.sha256((hdr + body).encode()).hexdigest()[:12]
    os.makedirs(os.path.join(ROOT, 'replays'), exist_ok=True)
    path = os.path.join(ROOT, 'replays', 'C%02d-%s-%s.hist' % (num, m['cont'], h))
    open(path, 'w').write(hdr + '\n' + body)
    res = replay_history(path)
    fails = [f for f in res['fails'] if f[0] // 1000 == cp]
    if q.meta.get('aspect_ids'):
        fails = [f for f in fails if f[0] in q.meta['aspect_ids']]
    reproduced = bool(fails) or (num == 8 and res.get('ub', False))
    info = {'history': path, 'query': q.name, 'replay_rc': res['rc'], 'clause_failures': fails[:6], 'reproduced': reproduced,
            'tail': res['out'][-600:]}
    ev.replays.append(info)
    return reproduced, path, info


def rehash_probe(ev, cont, cap=64):
    lines = ['cfg 1000000 1000000', 'mlf4 1']
    for k in range(1, 41):
        lines.append('%d %d %d 3 0 1000000 0 0' % (plan.OP['insert'], k, 100 + k))
    lines.append('%d 1 0 3 0 0 0 0' % plan.OP['erase'])
    lines.append('%d 2 0 3 0 0 0 0' % plan.OP['find'])
    lines.append('draws ' + ' '.join(['0'] * 16))
    hdr = '# cont=%s n=%d ts=no prop=8 variant=san' % (cont, cap)
    os.makedirs(os.path.join(ROOT, 'replays'), exist_ok=True)
    path = os.path.join(ROOT, 'replays', 'C08-%s-rehash-probe.hist' % cont)
    open(path, 'w').write(hdr + '\n' + '\n'.join(lines) + '\n')
    res = replay_history(path)
    info = {'kind': 'fill-then-erase at capacity %d, max_load_factor 0.25, checked iterators + ASan/UBSan' % cap, 'history': path,
            'replay_rc': res['rc'], 'reproduced': bool(res.get('ub')), 'tail': res['out'][-500:]}
    ev.replays.append(info)
    return bool(res.get('ub')), path, info


def spread_replay(ev, num, n):
    exe = core.build_aux('spread', 'rr', n, 0, ts='no')
    res = core.run_aux(exe)
    bad = 'RR-SPREAD-FAIL' in res['out']
    os.makedirs(os.path.join(ROOT, 'replays'), exist_ok=True)
    path = os.path.join(ROOT, 'replays', 'C%02d-rr-spread-n%d.conc' % (num, n))
    open(path, 'w').write('# cont=rr n=%d method=spread mid=0 kind=spread prop=%d\n%s\n' % (n, num, res['out'][-2000:]))
    info = {'kind': 'victim histogram on the real build', 'capacity': n, 'rc': res['rc'], 'reproduced': bad, 'tail': res['out'][-500:]}
    ev.replays.append(info)
    return bad, path, info


def replay_history(path):
    txt = open(path).read()
    m = re.search(r'#\s*cont=(\w+) n=(\d+) ts=(\w+) prop=(\d+) variant=(\w+)(?: ratio4=(\d+))?( counted=1)?', txt)
    if not m:
        raise core.ToolError('bad replay file ' + path)
    cont, n, ts, prop, variant, ratio = m.group(1), int(m.group(2)), m.group(3), int(m.group(4)), m.group(5), m.group(6)
    exe = core.build_replay(cont, n, ts, variant, (['-DT_RATIO4=%s' % ratio] if ratio else []) + (['-DVAL_COUNTED=1'] if m.group(7) else []))
    tmp = path + '.in'
    open(tmp, 'w').write('\n'.join(l for l in txt.splitlines() if not l.startswith('#')) + '\n')
    res = core.run_replay(exe, prop, tmp)
    os.remove(tmp)
    res['prop'] = prop
    return res


def replay_file(pid, path):
    if path.endswith('.conc'):
        m = re.search(r'#\s*cont=(\w+) n=(\d+) method=(\w+) mid=(\d+) kind=(\w+) prop=(\d+)', open(path).read())
        exe = core.build_aux(m.group(5), m.group(1), int(m.group(2)), int(m.group(4)), ts=('no' if m.group(5) == 'spread' else 'yes'))
        res = core.run_aux(exe)
        print(res['out'][-3000:])
        if 'ThreadSanitizer: data race' in res['out'] or 'NONLINEARIZABLE' in res['out'] or 'RR-SPREAD-FAIL' in res['out']:
            print('VIOLATION property=%s replay=%s' % (pid, path))
            return 1
        print('replay: no violation of %s reproduced' % pid)
        return 0
    res = replay_history(path)
    print(res['out'])
    fails = [f for f in res['fails'] if f[0] // 1000 == res['prop']]
    if fails or (res['prop'] == 8 and res.get('ub', False)):
        print('VIOLATION property=%s replay=%s' % (pid, path))
        return 1
    print('replay: no violation of %s reproduced' % pid)
    return 0


K3_ASSUMPTIONS = [
    'instantiation: thread_safe::yes, key_type = value_type = uint64_t; one public call from any state satisfying the representation invariant',
    'every load and store of the translated program (libcappuccino and vstd code) is instrumented (ir2c --instrument-access); the published '
    'objects are the container and every heap object it allocated before the call; allocations made by the call itself (results, temporaries) are thread-local',
    'declared construction-time constant: the size field of the fixed container that capacity() reads; the monitor asserts that no call writes it',
    'range methods are run with a concrete range length (1 or 2 elements, duplicates allowed); keys, values, allow, peek, TTL, clock symbolic',
    'the step from "all shared accesses of a call lie in one critical section of the single container mutex" to "linearizable / race free under every '
    'schedule of any number of threads" is the standard atomicity (lockset) argument, not an enumeration of schedules',
]


def k3_queries(num, tier, only=None):
    qs = []
    for cont in plan.CONTAINERS:
        if only and cont not in only:
            continue
        heavy = cont in ('lfu', 'lfuda', 'utmap', 'utset')
        ns = [2] if tier == 'quick' else ([2, 3] if not heavy else [2])
        for n in ns:
            for m, mid in plan.k3_methods(cont):
                rlen = 1 if (heavy and mid == 20 and tier == 'quick') else 2
                to = TIERS[tier]['k2_timeout'] * (2 if mid >= 20 else 1)
                for p in (7, 99):
                    qs.append(plan.k3_query(cont, m, mid, n, p, rlen=rlen, timeout=to))
    return qs


def k3_relevant(num, key):
    """which monitor assertions decide which property"""
    if isinstance(key, int):
        return key // 1000 == 7 and num == 6
    if 'unwinding assertion' in key:
        return False
    if key.startswith('K3a') or key.startswith('K3b'):
        return True
    if key.startswith('K3c') or key.startswith('K3d'):
        return num == 6
    return False


def run_concurrency(num, tier, seed, only=None):
    ev = Evidence(num, tier, seed)
    ev.assumptions = list(K3_ASSUMPTIONS)
    pid = ev.pid
    known, _ = load_known()
    qs = k3_queries(num, tier, only)
    ev.bounds = {'k3_capacities': sorted({q.meta['n'] for q in qs}), 'k3_range_length': sorted({q.meta['rlen'] for q in qs}),
                 'k3_pre_state': 'any invariant state', 'threads_and_schedules': 'discharged by the atomicity argument, not enumerated',
                 'outside': 'capacities above the listed ones, key/value types other than uint64_t, range lengths above 2, user-defined key/value '
                            'types whose own operations call back into the container'}
    sys.stderr.write('%s %s: %d K3 queries\n' % (pid, tier, len(qs)))
    validate_translation(ev, sorted({q.meta['cont'] for q in qs}), seed, tier)
    core.run_all(qs)
    # a loop the library's own containers do not bound (e.g. a bounded spin around try_lock in the mutex wrapper) exceeds
    # the unwinding bound derived from the capacity: decide such a query once more with a generous bound instead of
    # stopping with a tool error
    retry = []
    for i, q in enumerate(qs):
        if q.result.status == 'error' and q.result.note.startswith('unwinding bound too small') and q.meta['prop'] == 7:
            q2 = plan.k3_query(q.meta['cont'], q.meta['method'], dict(plan.k3_methods(q.meta['cont']))[q.meta['method']], q.meta['n'], 7,
                               rlen=q.meta['rlen'], timeout=q.timeout * 3)
            q2.unwind = 140
            q2.name += '_u140'
            q2.meta['mem_gb'] = q2.meta['mem_gb'] * 3
            retry.append((i, q2))
    if retry:
        sys.stderr.write('%s: %d K3 queries exceed the unwinding bound; deciding them again with --unwind 140\n' % (pid, len(retry)))
        core.run_all([q2 for _, q2 in retry])
        for i, q2 in retry:
            qs[i] = q2
    groups = {}
    for q in qs:
        groups.setdefault((q.meta['cont'], q.meta['method'], q.meta['n']), {})[q.meta['prop']] = q
    violations = []
    for key, g in sorted(groups.items()):
        q, w = g[7], g[99]
        ev.add_query(w, 'witness')
        wit = witness_ok(ev, w)
        ev.add_query(q, 'property')
        r = q.result
        ids = [k for k in r.asserts if k3_relevant(num, k)]
        if r.status in ('pass', 'fail'):
            bad = [k for k in ids if r.asserts[k] == 'FAILURE']
            ev.obligations += max(1, len(ids))
            if not bad:
                if wit:
                    ev.discharged += max(1, len(ids))
                    ev.nontrivial.add(q.name)
                continue
            ev.discharged += len(ids) - len(bad)
            # ---- replay on the real build
            cont, method, n = key
            mid = dict(plan.k3_methods(cont))[method]
            kinds = sorted({str(b)[:3] for b in bad})
            rep = None
            if any(str(b).startswith('K3a') or str(b).startswith('K3b') for b in bad):
                exe = core.build_aux('race', cont, 4, mid)
                res = core.run_aux(exe)
                raced = 'ThreadSanitizer: data race' in res['out']
                info = {'kind': 'tsan two-thread driver', 'container': cont, 'method': method, 'rc': res['rc'], 'data_race_reported': raced,
                        'tail': res['out'][-700:]}
                ev.replays.append(info)
                if raced:
                    rep = ('race', res)
            if rep is None and num == 6 and any(str(b).startswith('K3c') or isinstance(b, int) for b in bad):
                exe = core.build_aux('sched', cont, 2, mid)
                res = core.run_aux(exe)
                nonlin = 'NONLINEARIZABLE' in res['out']
                ev.replays.append({'kind': 'nested schedule at lock granularity', 'container': cont, 'method': method, 'rc': res['rc'],
                                   'nonlinearizable': nonlin, 'tail': res['out'][-700:]})
                if nonlin:
                    rep = ('sched', res)
            if rep is not None:
                os.makedirs(os.path.join(ROOT, 'replays'), exist_ok=True)
                path = os.path.join(ROOT, 'replays', '%s-%s-%s.conc' % (pid, cont, method))
                open(path, 'w').write('# cont=%s n=%d method=%s mid=%d kind=%s prop=%d\n%s\n' % (cont, 4 if rep[0] == 'race' else 2, method, mid, rep[0], num, rep[1]['out'][-3000:]))
                listed = [k for k in known if k['prop'] == pid and k['key'] == '%s:%s' % (cont, method)]
                if listed:
                    line = 'KNOWN-FINDING: property=%s %s [%s:%s; reproduced on the real build]' % (pid, listed[0]['what'], cont, method)
                    print(line); ev.known.append(line)
                else:
                    violations.append((path, '%s.%s: monitor assertions %s fail; %s on the real build' % (
                        cont, method, kinds, 'ThreadSanitizer reports a data race between this method and insert/erase' if rep[0] == 'race'
                        else 'a nested schedule gives a result no sequential order explains')))
            else:
                msg = 'K3 %s: %s fail but neither a TSan race nor a non-linearizable nested schedule reproduced on the real build' % (q.name, [str(b)[:30] for b in bad[:4]])
                ev.inconclusive.append(msg)
                print('INCONCLUSIVE property=%s %s' % (pid, msg))
        else:
            ev.obligations += 1
            ev.inconclusive.append('%s: %s %s' % (q.name, r.status, r.note[:200]))
            if r.status == 'error':
                raise core.ToolError('%s: %s' % (q.name, r.note))
    for q in qs:
        if len(ev.samples) < 8 and q.result.status == 'pass' and q.meta['prop'] == 7:
            ev.samples.append({'query': q.name, 'cmd': ' '.join(q.cbmc_cmd()[3:]), 'checks': q.result.n_checks,
                               'asserts': {str(k): v for k, v in list(q.result.asserts.items())[:6]}})
    if not ev.samples:
        ev.samples.append({'note': 'no passing query'})
    rc = 0
    for path, text in violations:
        print('VIOLATION property=%s replay=%s' % (pid, path))
        print('  ' + text)
        ev.violations += 1
        rc = 1
    ev.write()
    if rc == 0 and getattr(ev, 'translation_mismatch', None):
        raise core.ToolError(ev.translation_mismatch)
    return rc


def run_property(num, tier, seed, only=None):
    if num in (6, 7):
        return run_concurrency(num, tier, seed, only)
    ev = Evidence(num, tier, seed)
    ev.assumptions = list(COMMON_ASSUMPTIONS)
    cfg = TIERS[tier]
    ev.bounds = {'k2_capacities': cfg['k2_ns'], 'k2_capacities_lru_mru_fifo_rr': cfg['k2_ns_light'], 'k2_histories': 'any length (inductive step from any invariant state)',
                 'k1_capacity': cfg['k1_n'], 'k1_history_length': cfg['k1'], 'per_query_timeout_s': cfg['k2_timeout'],
                 'outside': 'capacities above the listed ones (and, at capacity 3 for lfuda/ut_map/ut_set, the inserting path of insert - its update path is covered -, which does not finish within the per-query limit); K1 histories longer than listed; value types other than uint64_t; '
                            'allocation failure; clocks beyond 2^40 ticks or decreasing; lfuda ratios other than 1/4, 1/2, 3/4 (1/4 and 3/4: aging step only in the quick tier)'}
    pid = ev.pid
    known, _fixed = load_known()
    qs = (k2_queries(num, tier, only) + k1_queries(num, tier, only) + k5_queries(num, tier, only) + counted_queries(num, tier, only)
          + range_aspect_queries(num, tier, only) + counted_k2_queries(num, tier, only))
    sys.stderr.write('%s %s: %d queries\n' % (pid, tier, len(qs)))
    validate_translation(ev, sorted({q.meta['cont'] for q in qs}), seed, tier)
    core.run_all(qs)
    rc = finish(ev, num, tier, qs, known, only_conts=only)
    if rc == 0 and getattr(ev, 'translation_mismatch', None):
        raise core.ToolError(ev.translation_mismatch)
    return rc


def validate_translation(ev, conts, seed, tier):
    """section 4 of DESIGN.md: per-run differential of the encoding against the real library"""
    from concurrent.futures import ThreadPoolExecutor
    seeds = (seed + 1, seed + 2) if tier == 'quick' else (seed + 1, seed + 2, seed + 3, seed + 4)

    def one(c):
        return c, core.translation_validation(c, 3, seeds)
    with ThreadPoolExecutor(max_workers=10) as ex:
        res = list(ex.map(one, conts))
    for c, r in res:
        ev.traces_validated += r['lines']
        if not r['identical']:
            ev.notes.append('translation validation, %s: %s' % (c, r['note']))
            if r['fatal']:
                # Both runs completed but differ: a PASS from this encoding cannot be trusted.  A violation that the replay
                # confirms on the real build stands on its own, so the check goes on and turns into a tool error only if
                # it would otherwise report that the property held (see run_property / run_concurrency).
                ev.translation_mismatch = 'translation validation failed for %s: both runs completed but differ (%s): the encoding cannot be trusted' % (c, r['note'])
    ev.extra['translation_validation'] = {c: {'lines_identical': r['lines'], 'identical': r['identical']} for c, r in res}


def finish(ev, num, tier, qs, known, extra_violations=(), only_conts=None):
    cfg = TIERS[tier]
    pid = ev.pid
    violations_pre = []
    k2_fail = interpret(ev, num, qs, 'k2')
    k1_fail = interpret(ev, num, qs, 'k1')
    k5_fail = interpret(ev, num, qs, 'k5')
    cnt_fail = interpret(ev, num, qs, 'cnt')
    for q, bad in cnt_fail:
        q.meta['kind'] = 'k1'
        q.defines['VAL_COUNTED'] = 1
        ok, path, info = lift_and_replay(ev, num, q)
        q.meta['kind'] = 'cnt'
        if ok:
            violations_pre.append((path, '%s: with an instance-counting value type the history leaves instances alive / touches dead instances on the real build' % q.name))
        else:
            msg = '%s: instance accounting fails (%s) in the encoding but not on the real build' % (q.name, bad[:4])
            ev.inconclusive.append(msg)
            print('INCONCLUSIVE property=%s %s' % (pid, msg))
    violations = list(extra_violations) + violations_pre  # (path, text)
    reproduced_conts = set()
    # ---- relational (two-copy) counterexamples: rebuild the state on the real build, run both copies there
    for q, bad in k5_fail:
        m = q.meta
        if m['prop'] == 0:
            ev.inconclusive.append('%s: invariant assertion(s) %s fail' % (q.name, bad[:4]))
            continue
        if m['mode'] == 2:
            ok, path, info = spread_replay(ev, num, m['n'])
            what = 'two different draws remove the same victim'
        else:
            ok, path, info = lift_and_replay(ev, num, q, clause_prop=m['prop'])
            what = 'clauses %s' % (info.get('clause_failures', [])[:3] if isinstance(info, dict) else info)
        if ok:
            violations.append((path, '%s: %s; reproduced on the real build' % (q.name, what)))
            reproduced_conts.add(m['cont'])
        else:
            msg = 'K5 counterexample of %s did not reproduce on the real build (%s)' % (q.name, str(info)[:300])
            ev.inconclusive.append(msg)
            print('INCONCLUSIVE property=%s %s' % (pid, msg))
    # ---- C15 (iii): every resident position must be reachable as the victim (witness ids 99020.. of the rr insert step)
    if num == 15:
        for q in qs:
            if q.meta.get('kind') == 'k2' and q.meta['prop'] == 99 and q.meta['cont'] == 'rr' and q.meta['op'] == 'insert' and q.result.status in ('pass', 'fail'):
                immune = [k - 99020 for k, v in q.result.asserts.items() if isinstance(k, int) and 99020 <= k < 99030 and v == 'SUCCESS']
                ev.obligations += q.meta['n']
                ev.discharged += q.meta['n'] - len(immune)
                if immune and 'rr' not in reproduced_conts:
                    ok, path, info = spread_replay(ev, num, q.meta['n'])
                    if ok:
                        violations.append((path, '%s: no draw makes position(s) %s the victim (immune residents); confirmed by the victim histogram on the real build' % (q.name, immune)))
                        reproduced_conts.add('rr')
                    else:
                        msg = '%s: position(s) %s unreachable as victim in the encoding but the real-build histogram shows them chosen' % (q.name, immune)
                        ev.inconclusive.append(msg)
                        print('INCONCLUSIVE property=%s %s' % (pid, msg))
    # ---- C15, the part the symbolic model cannot see: vstd models every draw of the random engine as an arbitrary value,
    # so a defect in the engine's STATE handling (e.g. re-seeding from a constant on some path) leaves all solver queries
    # green.  The victim histogram on the real build (plain stream, erase+refill before every eviction) therefore runs on
    # every C15 check; its thresholds only flag a position never / always chosen in 4000 evictions.
    if num == 15 and 'rr' not in reproduced_conts and (not only_conts or 'rr' in only_conts):
        for n in (2, 3):
            ok, path, info = spread_replay(ev, num, n)
            ev.obligations += 1
            if ok:
                violations.append((path, 'victim histogram on the real build at capacity %d: a position is never / always chosen (%s)' % (n, info['tail'].strip().splitlines()[-2][:120] if info['tail'].strip() else '')))
                reproduced_conts.add('rr')
                break
            ev.discharged += 1
    # ---- K1 counterexamples are public-API histories: replay them on the real build
    for q, bad in k1_fail:
        ok, path, info = lift_and_replay(ev, num, q)
        if ok:
            what = ('the sanitizers / checked iterators abort' if num == 8 and not info['clause_failures'] else 'clauses %s fail' % info['clause_failures'][:3])
            violations.append((path, '%s: %s on the real build (history of %d calls)' % (q.name, what, q.meta['k'])))
            reproduced_conts.add(q.meta['cont'])
        else:
            msg = 'K1 counterexample of %s did not reproduce on the real build (%s)' % (q.name, str(info)[:300])
            ev.inconclusive.append(msg)
            print('INCONCLUSIVE property=%s %s' % (pid, msg))
    # ---- K2 counterexamples are (state, call) pairs, possibly unreachable.  Lifting, step 1: reach alpha(pre) on the
    # real build through the public API (state builder in replay.cpp), run the call there, evaluate the clauses.
    for q, bad in sorted(k2_fail, key=lambda x: x[0].meta['prop'] == 0):
        if q.meta['n'] > 4 or q.meta['cont'] in reproduced_conts or num == 0:
            continue
        ok, path, info = lift_and_replay(ev, num, q)
        if ok:
            what = ('the sanitizers / checked iterators abort' if num == 8 and not info['clause_failures'] else 'clauses %s fail' % info['clause_failures'][:3])
            violations.append((path, '%s: from the abstract state of the solver counterexample, rebuilt through the public API, '
                               '%s on the real build' % (q.name, what)))
            reproduced_conts.add(q.meta['cont'])
    # ---- step 1b (clause failures whose pre-state the builder cannot reach, e.g. an lfuda count of 0): two calls from a
    # builder-reachable invariant state, the second one being the failing method
    y2 = []
    for q, bad in k2_fail:
        cont = q.meta['cont']
        if cont in reproduced_conts or q.meta['prop'] == 0 or num in (0, 8) or cont != 'lfuda':
            continue
        for op1 in plan.ops_of(cont):
            yq = plan.k2_query(cont, op1, q.meta['n'], num, q.meta['ts'], timeout=cfg['lift_timeout'], op2=q.meta['op'],
                               extra={'BUILDER_FRIENDLY': 1}, tag='_bf')
            yq.meta['lift_of'] = q.name
            yq.meta['mem_gb'] = yq.meta['mem_gb'] * 2
            yq.meta['weight'] = -yq.meta['weight'] if op1 != 'insert' else -10 * yq.meta['weight']
            if not any(x.name == yq.name for x in y2):
                y2.append(yq)
    if y2:
        sys.stderr.write('%s: lifting clause failure(s) through %d two-call queries from builder-reachable states\n' % (pid, len(y2)))
        lock1 = threading.Lock()

        def y2_done(yq):
            if yq.result.status != 'fail':
                return None
            with lock1:
                if yq.meta['cont'] in reproduced_conts:
                    return None
                ok, path, info = lift_and_replay(ev, num, yq)
                if ok:
                    violations.append((path, '%s (lifting %s): from a state rebuilt through the public API, two calls make clauses %s fail on the real build'
                                       % (yq.name, yq.meta['lift_of'], info['clause_failures'][:3])))
                    reproduced_conts.add(yq.meta['cont'])
                    return [o for o in y2 if o.meta['cont'] == yq.meta['cont'] and o is not yq]
            return None
        core.run_all(y2, on_done=y2_done)
        for yq in y2:
            ev.add_query(yq, 'lifting (K2x2, builder-reachable start)')
    # ---- step 2 (invariant failures): one more call after the failing one, the clauses asserted around the second
    # call (K2x2).  The counterexample starts in an invariant state, so the state builder can reach it.
    x2 = []
    for q, bad in k2_fail:
        cont = q.meta['cont']
        if cont in reproduced_conts or q.meta['prop'] != 0 or num in (0, 8):
            continue
        scope_ops = plan.k2_scope(num).get(cont, [])
        for op2 in scope_ops:
            xq = plan.k2_query(cont, q.meta['op'], q.meta['n'], num, q.meta['ts'], timeout=cfg['lift_timeout'], op2=op2)
            xq.meta['lift_of'] = q.name
            xq.meta['mem_gb'] = xq.meta['mem_gb'] * 2
            if not any(x.name == xq.name for x in x2):
                x2.append(xq)
    if x2:
        sys.stderr.write('%s: lifting %d invariant failure(s) through %d two-call queries\n' % (pid, len([1 for q, b in k2_fail if q.meta['prop'] == 0]), len(x2)))
        lock = threading.Lock()

        def x2_done(xq):
            if xq.result.status != 'fail':
                return None
            with lock:
                if xq.meta['cont'] in reproduced_conts:
                    return None
                ok, path, info = lift_and_replay(ev, num, xq)
                if ok:
                    violations.append((path, '%s (lifting %s): from an invariant state rebuilt through the public API, two calls make clauses %s '
                                       'fail on the real build' % (xq.name, xq.meta['lift_of'], info['clause_failures'][:3])))
                    reproduced_conts.add(xq.meta['cont'])
                    return [o for o in x2 if o.meta['cont'] == xq.meta['cont'] and o is not xq]
            return None
        for xq in x2:  # cheap first: the weight of the first call dominates
            xq.meta['weight'] = -xq.meta['weight']
        core.run_all(x2, on_done=x2_done)
        for xq in x2:
            ev.add_query(xq, 'lifting (K2x2)')
    # ---- step 3: a deeper, directed K1 query ending in the failing method (containers whose K1 is affordable)
    lift_qs = []
    for q, bad in k2_fail:
        cont = q.meta['cont']
        if cont in reproduced_conts or cfg['k1'][cont] == 0:
            continue
        if q.meta['prop'] == 0 and num != 0 and any(x[0].meta['cont'] == cont and x[0].meta['prop'] == num for x in k2_fail):
            continue
        k = cfg['k1'][cont] + cfg['lift_extra']
        lq = plan.k1_query(cont, 2, k, num if num else 1, 'no', timeout=cfg['lift_timeout'],
                           extra={'LAST_OP': plan.OP[q.meta['op']]}, tag='_lift_' + q.meta['op'])
        lq.meta['lift_of'] = q.name
        if not any(x.name == lq.name for x in lift_qs):
            lift_qs.append(lq)
    if lift_qs:
        sys.stderr.write('%s: lifting %d K2 counterexample(s) through directed K1 queries\n' % (pid, len(lift_qs)))
        core.run_all(lift_qs)
        for lq in lift_qs:
            ev.add_query(lq, 'lifting (directed K1)')
            if lq.result.status == 'fail' and lq.meta['cont'] not in reproduced_conts:
                ok, path, info = lift_and_replay(ev, num, lq)
                if ok:
                    violations.append((path, '%s (lifting %s): clauses %s fail on the real build' % (lq.name, lq.meta['lift_of'], info['clause_failures'][:3])))
                    reproduced_conts.add(lq.meta['cont'])
    for q, bad in k2_fail:
        if q.meta['cont'] in reproduced_conts:
            continue
        msg = 'K2 step %s: assertion(s) %s fail from an invariant state that no explored history reaches (not reported as a violation)' % (q.name, bad[:6])
        ev.inconclusive.append(msg)
        print('INCONCLUSIVE property=%s %s' % (pid, msg))
    # ---- C08, hash-table sizing: the vstd rehash contract (an insertion not covered by reserve() / the bucket count under
    # the configured max_load_factor may rehash, which invalidates the iterators libcappuccino stores) fails at every
    # capacity, but libstdc++ really rehashes a second time only from about 16 elements on: replay a fill-then-erase
    # history at capacity 64 with max_load_factor 0.25 on the checked-iterator / sanitizer build
    if num == 8:
        failed_conts = sorted({q.meta['cont'] for q, _ in list(k2_fail) + list(k1_fail) + list(cnt_fail)})
        for cont in failed_conts:
            if cont in reproduced_conts or cont in ('utmap', 'utset'):
                continue
            ok, path, info = rehash_probe(ev, cont)
            if ok:
                violations.append((path, '%s: the encoding shows an insertion that may rehash the key index while iterators into it are stored '
                                   '(max_load_factor below 1); at capacity 64 with max_load_factor 0.25 the checked iterators / sanitizers abort on the real build' % cont))
                reproduced_conts.add(cont)
                ev.inconclusive = [m for m in ev.inconclusive if (' k2_%s_' % cont) not in m and (' k1_%s_' % cont) not in m and ('cnt_%s_' % cont) not in m]
    # ---- known-finding probes
    for q in qs:
        key = q.meta.get('kf_probe')
        if not key:
            continue
        ev.add_query(q, 'known-finding probe')
        if q.result.status != 'fail' or q.meta['kind'] not in ('k1', 'k5'):
            continue
        ok, path, info = lift_and_replay(ev, num, q, clause_prop=(18 if q.meta['kind'] == 'k5' else None))
        if not ok:
            continue
        listed = [k for k in known if k['prop'] == pid and k['key'] == key]
        if listed:
            line = 'KNOWN-FINDING: property=%s %s [%s; reproduced on the real build: %s]' % (pid, listed[0]['what'], key, os.path.relpath(path, ROOT))
            print(line)
            ev.known.append(line)
        else:
            violations.append((path, 'unlisted finding %s' % key))
    # ---- samples
    for q in qs:
        if len(ev.samples) >= 8:
            break
        if q.result and q.result.status == 'pass' and q.meta.get('prop') == num:
            ev.samples.append({'query': q.name, 'cmd': ' '.join(q.cbmc_cmd()[3:]), 'checks': q.result.n_checks,
                               'asserts': {str(k): v for k, v in list(q.result.asserts.items())[:8]}})
    if not ev.samples:
        ev.samples.append({'note': 'no passing property query in this run'})
    rc = 0
    for path, text in violations:
        print('VIOLATION property=%s replay=%s' % (pid, path))
        print('  ' + text)
        ev.violations += 1
        rc = 1
    ev.write()
    return rc
