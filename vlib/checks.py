# Property checks: plan -> solver queries -> interpretation -> lifting/replay -> evidence.
import json, os, sys, time
from . import core, plan
from .core import ROOT

TIERS = {
    'quick': {'k2_ns': [1, 2], 'k2_timeout': 300},
    'thorough': {'k2_ns': [1, 2, 3], 'k2_timeout': 3600},
}


def ts_modes(n, tier):
    """thread_safe instantiations verified at capacity n ('both modes' of the quantifier)"""
    if tier == 'quick':
        return ['no'] if n == 1 else ['yes']
    return ['no', 'yes'] if n == 2 else ['no']


class Evidence:
    def __init__(self, num, tier, seed):
        self.pid = 'C%02d' % num
        self.tier = tier
        self.seed = seed
        self.t0 = time.time()
        self.obligations = 0
        self.discharged = 0
        self.queries = []
        self.samples = []
        self.notes = []
        self.violations = 0
        self.known = []
        self.inconclusive = []
        self.functions = set()
        self.bounds = {}
        self.assumptions = []
        self.traces_validated = 0
        self.nontrivial = set()
        self.solver_secs = 0.0
        self.peak_rss_mb = 0
        self.cache_hits = 0

    def add_query(self, q, role):
        r = q.result
        self.queries.append({'name': q.name, 'role': role, 'status': r.status, 'secs': r.secs, 'rss_mb': r.rss_kb // 1024,
                             'checks': r.n_checks, 'failed': r.n_failed, 'cached': r.cache_hit, 'note': r.note[:300],
                             'sat_vars': r.vars, 'sat_clauses': r.clauses})
        self.solver_secs += r.secs
        self.peak_rss_mb = max(self.peak_rss_mb, r.rss_kb // 1024)
        if r.cache_hit:
            self.cache_hits += 1

    def write(self):
        d = {
            'property_id': self.pid, 'tier': self.tier, 'seed': self.seed, 'level': 'model_checking',
            'coverage': {
                'evaluations': len(self.queries),
                'distinct_nontrivial': len(self.nontrivial),
                'rule': 'one evaluation = one CBMC (SAT) query over the C translation of the LLVM IR of the real headers; '
                        'a query is counted non-trivial when its vacuity-witness twin reached every case split it names '
                        '(each witness assertion came back violated) and distinct by (harness, container, method, capacity, '
                        'thread_safe mode, property)',
                'obligations': self.obligations, 'discharged': self.discharged,
                'traces_validated_against_impl': self.traces_validated,
                'checker_cmd': 'cbmc <generated.c> hooks/*.c --function harness --unwind N --unwinding-assertions '
                               '--no-malloc-may-fail --drop-unused-functions [--no-standard-checks]',
                'trusted_base': ['clang++-14 front end and -O1 pipeline', 'ir2c (validated per run by the native differential)',
                                 'vstd contract model of libstdc++ (validated per run by the native differential)',
                                 'CBMC 6.11 + MiniSat', 'the representation invariants and abstraction functions in harness/c_*.hpp'],
                'samples': self.samples[:12],
                'functions_encoded': sorted(self.functions)[:400],
                'bounds': self.bounds,
                'queries': self.queries,
                'solver_seconds': round(self.solver_secs, 1),
                'peak_rss_mb': self.peak_rss_mb,
                'verdict_cache_hits': self.cache_hits,
                'inconclusive': self.inconclusive,
                'known_findings_reported': self.known,
                'notes': self.notes,
                'exhaustive': False,
            },
            'assumptions': self.assumptions,
            'wall_s': round(time.time() - self.t0, 1),
            'violations': self.violations,
        }
        os.makedirs(os.path.join(ROOT, 'evidence'), exist_ok=True)
        p = os.path.join(ROOT, 'evidence', self.pid + '.json')
        json.dump(d, open(p + '.tmp', 'w'), indent=1)
        os.replace(p + '.tmp', p)


COMMON_ASSUMPTIONS = [
    'instantiation: key_type = value_type = uint64_t (ut_set: key only)',
    'allocation never fails (--no-malloc-may-fail); keys, values 64-bit symbolic; allow, peek symbolic',
    'clock readings non-decreasing, clock readings and TTLs in [0, 2^40) ticks; lfuda use counts < 2^16, tick in (0, 2^40)',
    'std library replaced by the vstd contract model (list, unordered_map, map, multimap, vector, optional, chrono, random, mutex)',
    'K2: pre-state = any state satisfying the representation invariant of harness/c_<container>.hpp at the stated capacity',
]


def k2_queries(num, tier, only=None, props=None):
    cfg = TIERS[tier]
    scope = plan.k2_scope(num)
    qs = []
    for cont, ops in scope.items():
        if only and cont not in only:
            continue
        for n in cfg['k2_ns']:
            for ts in ts_modes(n, tier):
                for op in ops:
                    group = {}
                    for p in (props or [num, 0, 99]):
                        extra = None
                        tag = ''
                        if num == 2 and p == 2 and cont in ('utmap', 'utset') and op == 'insert':
                            extra = {'KF_TTL0': 0}; tag = '_ttlpos'   # the TTL == 0 case is the known-finding probe
                        q = plan.k2_query(cont, op, n, p, ts, timeout=cfg['k2_timeout'], extra=extra, tag=tag)
                        group[p] = q
                        qs.append(q)
                    if num == 2 and cont in ('utmap', 'utset') and op == 'insert':
                        q = plan.k2_query(cont, op, n, 2, ts, timeout=cfg['k2_timeout'], extra={'KF_TTL0': 1}, tag='_ttl0')
                        q.meta['kf_probe'] = 'ut-ttl0'
                        qs.append(q)
    return qs


def interpret_k2(ev, num, queries):
    """returns list of failing (query, ids)"""
    groups = {}
    for q in queries:
        if q.meta.get('kind') != 'k2':
            continue
        m = q.meta
        groups.setdefault((m['cont'], m['op'], m['n'], m['ts']), []).append(q)
    failures = []
    for key, qs in sorted(groups.items()):
        wit = [q for q in qs if q.meta['prop'] == 99]
        wit_ok = True
        wit_ids = []
        for q in wit:
            ev.add_query(q, 'witness')
            r = q.result
            if r.status not in ('fail',):
                wit_ok = False
                ev.notes.append('witness twin %s: %s %s' % (q.name, r.status, r.note))
                continue
            for k, v in r.asserts.items():
                if isinstance(k, int) and k // 1000 == 99:
                    wit_ids.append(k)
                    if v != 'FAILURE':
                        wit_ok = False
                        ev.notes.append('vacuity: witness %d of %s unreachable' % (k, q.name))
        for q in qs:
            p = q.meta['prop']
            if p == 99:
                continue
            if q.meta.get('kf_probe'):
                continue
            role = 'invariant' if p == 0 else 'property'
            ev.add_query(q, role)
            r = q.result
            ids = [k for k in r.asserts if (isinstance(k, int) and k // 1000 == p) or (not isinstance(k, int) and p in (0, 8))]
            if r.status == 'pass':
                ev.obligations += max(1, len(ids))
                if wit_ok:
                    ev.discharged += max(1, len(ids))
                    ev.nontrivial.add(q.name)
            elif r.status == 'fail':
                bad = [k for k in ids if r.asserts[k] == 'FAILURE']
                ev.obligations += max(1, len(ids))
                ev.discharged += len(ids) - len(bad)
                failures.append((q, bad))
            else:
                ev.obligations += 1
                ev.inconclusive.append('%s: %s %s' % (q.name, r.status, r.note[:200]))
                if r.status == 'error':
                    raise core.ToolError('%s: %s' % (q.name, r.note))
    return failures


def run_property(num, tier, seed, only=None):
    ev = Evidence(num, tier, seed)
    ev.assumptions = list(COMMON_ASSUMPTIONS)
    cfg = TIERS[tier]
    ev.bounds = {'k2_capacities': cfg['k2_ns'], 'k2_histories': 'any length (inductive step)', 'per_query_timeout_s': cfg['k2_timeout']}
    pid = ev.pid
    qs = k2_queries(num, tier, only)
    sys.stderr.write('%s %s: %d K2 queries\n' % (pid, tier, len(qs)))
    core.run_all(qs)
    failures = interpret_k2(ev, num, qs)
    rc = 0
    for q, bad in failures:
        msg = 'K2 step %s: assertion(s) %s fail from an arbitrary invariant state' % (q.name, bad)
        ev.inconclusive.append(msg)
        print('INCONCLUSIVE property=%s %s' % (pid, msg))
    for q in qs[:6]:
        if q.result and q.result.status == 'pass':
            ev.samples.append({'query': q.name, 'cmd': ' '.join(q.cbmc_cmd()[3:]), 'checks': q.result.n_checks,
                               'asserts': {str(k): v for k, v in list(q.result.asserts.items())[:8]}})
    ev.write()
    return rc
