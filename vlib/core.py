# Core of the checker: regenerate the encoding from /repo, run CBMC queries in parallel, parse verdicts.
import hashlib, json, os, re, shutil, subprocess, sys, time, resource, threading
from concurrent.futures import ThreadPoolExecutor

ROOT = os.path.dirname(os.path.dirname(os.path.abspath(__file__)))
REPO = os.environ.get('VERIF_REPO', '/repo')
BUILD = os.path.join(ROOT, 'build')
CLANG = 'clang++-14'
CLANG_FLAGS = ['-std=c++17', '-nostdinc++', '-fno-exceptions', '-fno-rtti', '-fno-builtin', '-O1', '-fno-vectorize',
               '-fno-slp-vectorize', '-fno-unroll-loops', '-mllvm', '-simplifycfg-sink-common=false',
               '-Dprivate=public', '-DCAPPUCCINO_VERIF_HOOKS', '-S', '-emit-llvm']
CBMC_BASE = ['--function', 'harness', '--unwinding-assertions', '--no-malloc-may-fail', '--drop-unused-functions', '--verbosity', '8']
NO_CACHE = os.environ.get('VERIF_NO_CACHE') == '1'
JOBS = int(os.environ.get('VERIF_JOBS', '16'))


class ToolError(Exception):
    pass


def sha(*parts):
    h = hashlib.sha256()
    for p in parts:
        h.update(p if isinstance(p, bytes) else str(p).encode())
        h.update(b'\0')
    return h.hexdigest()[:24]


def hash_tree(paths):
    h = hashlib.sha256()
    for base in paths:
        if os.path.isfile(base):
            files = [base]
        else:
            files = []
            for d, _, fs in sorted(os.walk(base)):
                if '__pycache__' in d:
                    continue
                for f in sorted(fs):
                    files.append(os.path.join(d, f))
        for f in files:
            h.update(f.encode())
            h.update(open(f, 'rb').read())
    return h.hexdigest()[:24]


_src_hash = None


def source_hash():
    """hash of everything an encoding depends on: the repo headers under test, vstd, ir2c, harnesses, hooks"""
    global _src_hash
    if _src_hash is None:
        _src_hash = hash_tree([os.path.join(REPO, 'inc'), os.path.join(ROOT, 'vstd'), os.path.join(ROOT, 'ir2c'),
                               os.path.join(ROOT, 'harness'), os.path.join(ROOT, 'hooks')])
    return _src_hash


class Query:
    """One solver query: a harness compiled with a set of defines, translated to C and handed to CBMC."""

    def __init__(self, name, src, defines, hooks=('cbmc_hooks.c',), unwind=8, cbmc_flags=(), cbmc_defines=(),
                 timeout=300, meta=None, ir2c_flags=(), standard_checks=False):
        self.name = name
        self.src = src
        self.defines = dict(defines)
        self.hooks = list(hooks)
        self.unwind = unwind
        self.cbmc_flags = list(cbmc_flags)
        self.cbmc_defines = list(cbmc_defines)
        self.timeout = timeout
        self.meta = meta or {}
        self.ir2c_flags = list(ir2c_flags)
        self.standard_checks = standard_checks
        self.c_path = None
        self.result = None
        self.cancelled = False
        self.proc = None

    def clang_cmd(self, out_ll):
        d = []
        for k, v in sorted(self.defines.items()):
            d.append('-D%s=%s' % (k, v) if v is not None else '-D%s' % k)
        return [CLANG] + CLANG_FLAGS + ['-I', os.path.join(ROOT, 'vstd'), '-I', os.path.join(REPO, 'inc'),
                                        '-I', os.path.join(ROOT, 'harness')] + d + [os.path.join(ROOT, 'harness', self.src), '-o', out_ll]

    def cbmc_cmd(self):
        cmd = ['cbmc', self.c_path] + [os.path.join(ROOT, 'hooks', h) for h in self.hooks]
        cmd += ['-D' + d for d in self.cbmc_defines]
        cmd += CBMC_BASE + ['--unwind', str(self.unwind)]
        if not self.standard_checks:
            cmd.append('--no-standard-checks')
        else:
            cmd += ['--pointer-overflow-check']
        cmd += self.cbmc_flags
        return cmd


class Result:
    def __init__(self):
        self.status = 'undecided'  # pass | fail | undecided | error
        self.asserts = {}          # assertion key -> SUCCESS/FAILURE ; key = int id for __vf_assert, text otherwise
        self.secs = 0.0
        self.rss_kb = 0
        self.cache_hit = False
        self.note = ''
        self.n_checks = 0
        self.n_failed = 0
        self.vars = 0
        self.clauses = 0
        self.steps = 0
        self.vccs = 0
        self.hist = None  # values of the h_* recording variables in the first counterexample trace

    def to_json(self):
        return {'status': self.status, 'asserts': {str(k): v for k, v in self.asserts.items()}, 'secs': self.secs,
                'rss_kb': self.rss_kb, 'note': self.note, 'n_checks': self.n_checks, 'n_failed': self.n_failed,
                'vars': self.vars, 'clauses': self.clauses, 'hist': self.hist, 'steps': self.steps, 'vccs': self.vccs}

    @staticmethod
    def from_json(j):
        r = Result()
        r.status = j['status']
        r.asserts = {(int(k) if k.lstrip('-').isdigit() else k): v for k, v in j['asserts'].items()}
        r.secs = j['secs']; r.rss_kb = j['rss_kb']; r.note = j.get('note', '')
        r.n_checks = j.get('n_checks', 0); r.n_failed = j.get('n_failed', 0)
        r.vars = j.get('vars', 0); r.clauses = j.get('clauses', 0)
        r.steps = j.get('steps', 0); r.vccs = j.get('vccs', 0)
        h = j.get('hist')
        if h is not None:
            r.hist = {k: ({int(i): x for i, x in v.items()} if isinstance(v, dict) else v) for k, v in h.items()}
        return r


def build_query(q):
    """clang -> LLVM IR -> ir2c -> C.  Regenerated from /repo's working tree; cached by content hash."""
    key = sha(source_hash(), q.src, json.dumps(q.defines, sort_keys=True), ' '.join(q.ir2c_flags), ' '.join(CLANG_FLAGS))
    d = os.path.join(BUILD, 'enc', key)
    c_path = os.path.join(d, q.name + '.c')
    q.c_path = c_path
    if os.path.exists(c_path) and not NO_CACHE:
        return
    os.makedirs(d, exist_ok=True)
    ll = os.path.join(d, q.name + '.ll')
    p = subprocess.run(q.clang_cmd(ll), capture_output=True, text=True)
    if p.returncode != 0:
        raise ToolError('clang failed for %s:\n%s' % (q.name, p.stderr[-3000:]))
    tmp = c_path + '.tmp'
    p = subprocess.run([sys.executable, os.path.join(ROOT, 'ir2c', 'ir2c.py'), ll, '-o', tmp] + q.ir2c_flags,
                       capture_output=True, text=True)
    if p.returncode != 0:
        raise ToolError('ir2c failed for %s:\n%s' % (q.name, (p.stderr or p.stdout)[-3000:]))
    txt = open(tmp).read()
    # every property assertion must carry a static id (clang must not have merged two assertion calls)
    body = txt.split('/* ---- functions ---- */')[-1] if '/* ---- functions ---- */' in txt else txt
    if re.search(r'[^_a-zA-Z]__vf_assert\(|[^_a-zA-Z]__vf_check\(', re.sub(r'(?m)^(void|#define|extern).*$', '', body)):
        raise ToolError('assertion with a dynamic id in %s (clang merged two assertion sites)' % q.name)
    os.replace(tmp, c_path)
    os.remove(ll)


_RE_ASSERT = re.compile(r'^\[(\S+)\] line \d+ (.*): (SUCCESS|FAILURE)$')


def parse_cbmc(out, res):
    for line in out.splitlines():
        m = _RE_ASSERT.match(line)
        if m:
            desc = m.group(2)
            mid = re.search(r'__vf_(assert|check) id=(\d+)', desc)
            if mid and mid.group(1) == 'assert':
                key = int(mid.group(2))
            elif mid:
                key = 'contract:%s@%s' % (mid.group(2), m.group(1))
            else:
                key = '%s@%s' % (desc, m.group(1))
            # several instances of the same id: FAILURE dominates
            if res.asserts.get(key) != 'FAILURE':
                res.asserts[key] = m.group(3)
            continue
        m = re.match(r'^\*\* (\d+) of (\d+) failed', line)
        if m:
            res.n_failed = int(m.group(1)); res.n_checks = int(m.group(2))
        m = re.match(r'^(\d+) variables, (\d+) clauses', line)
        if m:
            res.vars = max(res.vars, int(m.group(1))); res.clauses = max(res.clauses, int(m.group(2)))
        m = re.match(r'^size of program expression: (\d+) steps', line)
        if m:
            res.steps = int(m.group(1))
        m = re.match(r'^Generated (\d+) VCC\(s\), (\d+) remaining', line)
        if m:
            res.vccs = int(m.group(2))


def kill_query(q):
    for p in [getattr(q, 'proc', None)] + [x[0] for x in (getattr(q, 'procs', None) or [])]:
        if p is not None and p.poll() is None:
            try:
                os.killpg(os.getpgid(p.pid), 9)
            except Exception:
                pass


def run_query(q, mem_gb=12):
    build_query(q)
    cmd = q.cbmc_cmd()
    hook_hash = hash_tree([os.path.join(ROOT, 'hooks', h) for h in q.hooks])
    vkey = sha(open(q.c_path, 'rb').read(), hook_hash, ' '.join(cmd[2:]))
    vdir = os.path.join(BUILD, 'verdicts')
    os.makedirs(vdir, exist_ok=True)
    vpath = os.path.join(vdir, vkey + '.json')
    if os.path.exists(vpath) and not NO_CACHE:
        r = Result.from_json(json.load(open(vpath)))
        if r.status in ('pass', 'fail'):
            r.cache_hit = True
            q.result = r
            return r
    r = Result()
    t0 = time.time()

    def lim():
        os.setsid()
        resource.setrlimit(resource.RLIMIT_AS, (mem_gb << 30, mem_gb << 30))
    if q.cancelled:
        r.status = 'undecided'; r.note = 'cancelled (not needed any more)'
        q.result = r
        return r
    # Delayed portfolio: MiniSat first; if it has not answered after a while, the same query is also given to CaDiCaL
    # (SAT run times are heavy-tailed: an instance MiniSat does not finish in 300 s was solved by CaDiCaL in 10 s).  The
    # first decisive answer wins; both are complete decision procedures for the same formula.
    import tempfile
    delay = max(45, q.timeout // 5)
    procs = []

    def start(extra, label):
        fo = tempfile.TemporaryFile(mode='w+')
        fe = tempfile.TemporaryFile(mode='w+')
        pr = subprocess.Popen(['/usr/bin/time', '-f', 'RSSKB %M'] + cmd + extra, stdout=fo, stderr=fe, text=True, preexec_fn=lim)
        procs.append((pr, fo, fe, label))
        return pr
    q.proc = start([], 'minisat')
    q.procs = procs
    decided = None
    while True:
        el = time.time() - t0
        if q.cancelled or el > q.timeout:
            break
        for pr, fo, fe, label in procs:
            if pr.poll() is not None and decided is None:
                fo.seek(0); fe.seek(0)
                out, err = fo.read(), fe.read()
                ok = (pr.returncode == 0 and 'VERIFICATION SUCCESSFUL' in out) or (pr.returncode == 10 and 'VERIFICATION FAILED' in out)
                if ok or len(procs) == 1 or all(p2.poll() is not None for p2, _, _, _ in procs):
                    decided = (pr, out, err, label)
        if decided:
            break
        if len(procs) == 1 and el > delay and 'cadical' not in ' '.join(cmd):
            start(['--sat-solver', 'cadical'], 'cadical')
        time.sleep(0.2)
    for pr, fo, fe, label in procs:
        if pr.poll() is None:
            try:
                os.killpg(os.getpgid(pr.pid), 9)
            except Exception:
                pass
            pr.wait()
    if decided is None:
        if q.cancelled:
            r.status = 'undecided'; r.note = 'cancelled (not needed any more)'
        else:
            r.status = 'undecided'
            r.note = 'timeout after %ds (MiniSat%s)' % (q.timeout, ' and CaDiCaL' if len(procs) > 1 else '')
    else:
        pr, out, err, label = decided
        m = re.search(r'RSSKB (\d+)', err)
        r.rss_kb = int(m.group(1)) if m else 0
        parse_cbmc(out, r)
        if '\nTrace for ' in out:
            first = out.split('\nTrace for ', 2)[1]
            r.hist = parse_history(first)
        unwind_fail = [k for k, v in r.asserts.items() if isinstance(k, str) and 'unwinding assertion' in k and v == 'FAILURE']
        if pr.returncode == 0 and 'VERIFICATION SUCCESSFUL' in out:
            r.status = 'pass'
        elif pr.returncode == 10 and 'VERIFICATION FAILED' in out:
            r.status = 'fail'
            other_fail = [k for k, v in r.asserts.items() if v == 'FAILURE' and not (isinstance(k, str) and 'unwinding assertion' in k)]
            if unwind_fail and not other_fail:
                r.status = 'error'
                r.note = 'unwinding bound too small: ' + ', '.join(unwind_fail[:3])
            elif unwind_fail:
                r.note = 'unwinding assertion also failed (consequence of the failing assertions): ' + ', '.join(unwind_fail[:2])
        else:
            r.status = 'error'
            r.note = 'cbmc exit %d: %s' % (pr.returncode, (out[-400:] + err[-400:]).replace('\n', ' | '))
            if 'std::bad_alloc' in err or 'Out of memory' in err or 'out of memory' in (out + err).lower() or pr.returncode in (-9, 137, 134, -6):
                r.status = 'undecided'
                r.note = 'out of memory (limit %d GB)' % mem_gb
        if label != 'minisat' and r.status in ('pass', 'fail'):
            r.note = (r.note + ' ' if r.note else '') + 'decided by CaDiCaL (MiniSat still running after %ds)' % delay
    for pr, fo, fe, label in procs:
        fo.close(); fe.close()
    r.secs = round(time.time() - t0, 2)
    if r.status in ('pass', 'fail'):
        json.dump(r.to_json(), open(vpath, 'w'))
    q.result = r
    return r


MEM_BUDGET_GB = int(os.environ.get('VERIF_MEM_GB', '48'))
_mem_cv = threading.Condition()
_mem_used = [0]


def run_all(queries, jobs=None, mem_gb=12, progress=True, on_done=None):
    """on_done(q) may return a list of queries to cancel (pending ones are skipped, running ones killed)"""
    jobs = jobs or JOBS
    errors = []

    def work(q):
        need = min(q.meta.get('mem_gb', 2), MEM_BUDGET_GB)
        with _mem_cv:
            while _mem_used[0] + need > MEM_BUDGET_GB:
                _mem_cv.wait()
            _mem_used[0] += need
        try:
            r = run_query(q, max(mem_gb, q.meta.get('mem_gb', 2) * 2))
        except ToolError as e:
            r = Result(); r.status = 'error'; r.note = str(e); q.result = r
        finally:
            with _mem_cv:
                _mem_used[0] -= need
                _mem_cv.notify_all()
        if progress:
            sys.stderr.write('  [%s] %-40s %6.1fs %5dMB %s%s\n' % (r.status, q.name, r.secs, r.rss_kb // 1024,
                                                                  '(cached) ' if r.cache_hit else '', r.note[:200]))
        if on_done is not None:
            for c in (on_done(q) or []):
                if c.result is None:
                    c.cancelled = True
                    kill_query(c)
        return r
    # longest first
    order = sorted(queries, key=lambda q: -q.meta.get('weight', 1))
    with ThreadPoolExecutor(max_workers=jobs) as ex:
        list(ex.map(work, order))
    return queries


def cbmc_trace(q, extra_flags=()):
    """re-run a failing query with --trace and return the text"""
    cmd = q.cbmc_cmd() + ['--trace', '--stop-on-fail'] + list(extra_flags)
    p = subprocess.run(cmd, capture_output=True, text=True, timeout=max(q.timeout * 3, 600))
    return p.stdout


def parse_history(trace_text):
    """history recorded by k1_hist.cpp (h_* arrays) and hooks (h_draw) from a `cbmc --trace` text"""
    vals = {}
    for m in re.finditer(r'(?m)^\s*(?:G_)?(h_\w+?)(?:\[(\d+)l?\])?=(-?\d+)', trace_text):
        name, idx, v = m.group(1), m.group(2), int(m.group(3))
        if v >= 1 << 63:
            v -= 1 << 64
        if idx is None:
            vals[name] = v
        else:
            vals.setdefault(name, {})[int(idx)] = v
    return vals


def history_lines(vals, ksteps):
    lines = ['cfg %d %d' % (vals.get('h_cfg_ttl', 100), vals.get('h_cfg_tick', 5))]
    if vals.get('h_mlf4', 4) not in (0, 4):
        lines.append('mlf4 %d' % vals['h_mlf4'])  # constructor max_load_factor in quarters (C08 histories)
    draws = vals.get('h_draw', {})
    g = lambda n, i: vals.get(n, {}).get(i, 0)
    for i in range(ksteps):
        if g('h_a', i) == 0:
            break  # calls after the failing one are not part of the counterexample
        lines.append('%d %d %d %d %d %d %d %d' % (g('h_op', i), g('h_k', i) & (2**64 - 1), g('h_v', i) & (2**64 - 1), g('h_a', i),
                                                  g('h_pk', i), g('h_ttl', i), g('h_now', i), 0))
    lines.append('draws ' + ' '.join(str(draws.get(i, 0) & (2**64 - 1)) for i in range(16)))
    return lines


def state_lines(vals, ncalls=1, kind_line=None, explore=0):
    """(alpha(pre), call) of a K2 counterexample, for the state-builder mode of the replay"""
    n = vals.get('h_pre_n', 0)
    g = lambda name, i: vals.get(name, {}).get(i, 0)
    lines = ['state %d %d %d %d' % (vals.get('h_last_now', 0), vals.get('h_pre_ttl', 0), vals.get('h_pre_tick', 0), n)]
    for i in range(n):
        lines.append('e %d %d %d %d %d %d' % (g('h_pre_k', i) & (2**64 - 1), g('h_pre_v', i) & (2**64 - 1), g('h_pre_d', i),
                                              g('h_pre_cnt', i) & (2**64 - 1), g('h_pre_age', i), g('h_pre_o2', i) & 0xffff))
    if kind_line:
        lines.append(kind_line)
    if explore:
        lines.append('explore %d' % explore)
    for c in range(ncalls):
        lines.append('call %d %d %d %d %d %d %d' % (g('h_op', c), g('h_k', c) & (2**64 - 1), g('h_v', c) & (2**64 - 1), g('h_a', c),
                                                    g('h_pk', c), g('h_ttl', c), g('h_now', c)))
    lines.append('draws ' + ' '.join(str(vals.get('h_draw', {}).get(i, 0) & (2**64 - 1)) for i in range(16)))
    return lines


REPLAY_FLAGS = {
    'plain': ['-O1', '-g'],
    'san': ['-O1', '-g', '-fsanitize=address,undefined', '-fno-sanitize-recover=undefined', '-D_GLIBCXX_DEBUG'],
}


def build_replay(cont, n, ts='no', variant='plain', extra_defs=()):
    """the REAL build: real headers from /repo, real libstdc++, link-time virtual clock"""
    key = sha(source_hash(), hash_tree([os.path.join(ROOT, 'replay')]), cont, n, ts, variant, ' '.join(extra_defs))
    d = os.path.join(BUILD, 'replay', key)
    exe = os.path.join(d, 'replay_%s_n%d_%s_%s' % (cont, n, ts, variant))
    if os.path.exists(exe) and not NO_CACHE:
        return exe
    os.makedirs(d, exist_ok=True)
    cmd = ['g++', '-std=c++17'] + REPLAY_FLAGS[variant] + ['-DVF_REAL', '-DVF_RUNTIME_PROP', '-Dprivate=public',
           '-DCONT_API="api_%s.hpp"' % cont, '-DHCAP=%d' % n, '-DTS=%s' % ts, '-DRMAX=3'] + list(extra_defs) + [
           '-I', os.path.join(ROOT, 'harness'), '-I', os.path.join(REPO, 'inc'),
           os.path.join(ROOT, 'replay', 'replay.cpp'), '-o', exe + '.tmp', '-lpthread']
    p = subprocess.run(cmd, capture_output=True, text=True)
    if p.returncode != 0:
        raise ToolError('replay build failed (%s):\n%s' % (cont, p.stderr[-3000:]))
    os.replace(exe + '.tmp', exe)
    return exe


def run_replay(exe, prop, hist_path, timeout=120):
    env = dict(os.environ)
    env['ASAN_OPTIONS'] = 'detect_leaks=1:abort_on_error=0:exitcode=77'
    try:
        p = subprocess.run([exe, str(prop), hist_path], capture_output=True, text=True, timeout=timeout, env=env)
    except subprocess.TimeoutExpired:
        return {'rc': -1, 'out': 'timeout', 'fails': [], 'done': False}
    fails = [(int(m.group(1)), int(m.group(2))) for m in re.finditer(r'CLAUSE-FAIL id=(\d+) step=(\d+)', p.stdout)]
    txt = p.stdout + p.stderr
    ub = (p.returncode < 0 or p.returncode in (77, 134, 139) or 'AddressSanitizer' in txt or 'runtime error:' in txt or 'Error: attempt to' in txt
          or 'LeakSanitizer' in txt)
    return {'rc': p.returncode, 'out': p.stdout[-6000:] + p.stderr[-3000:], 'fails': fails, 'done': 'REPLAY-DONE' in p.stdout, 'ub': ub}


def build_aux(kind, cont, n, method, ts='yes'):
    """real-build helper programs for the concurrency properties: 'race' (two threads under TSan) and 'sched'
    (nested schedules at lock granularity through an interposed pthread_mutex_lock)"""
    src = {'race': 'race_driver.cpp', 'sched': 'sched_replay.cpp', 'spread': 'rr_spread.cpp'}[kind]
    key = sha(source_hash(), hash_tree([os.path.join(ROOT, 'replay')]), kind, cont, n, method, ts)
    d = os.path.join(BUILD, 'replay', key)
    exe = os.path.join(d, '%s_%s_n%d_m%d' % (kind, cont, n, method))
    if os.path.exists(exe) and not NO_CACHE:
        return exe
    os.makedirs(d, exist_ok=True)
    # the race driver is built without optimisation: a compiler may fold a store pair such as libstdc++'s
    # _M_inc_size/_M_dec_size in a same-list splice, which hides that write from ThreadSanitizer although the abstract
    # machine performs it
    flags = (['-O0', '-g', '-fsanitize=thread'] if kind == 'race' else ['-O1', '-g'])
    cmd = ['g++', '-std=c++17'] + flags + ['-DVF_REAL', '-DVF_RUNTIME_PROP', '-Dprivate=public', '-DCONT_API="api_%s.hpp"' % cont,
           '-DHCAP=%d' % n, '-DTS=%s' % ts, '-DMETHOD=%d' % method, '-I', os.path.join(ROOT, 'harness'), '-I', os.path.join(REPO, 'inc'),
           os.path.join(ROOT, 'replay', src), '-o', exe + '.tmp', '-ldl', '-lpthread']
    p = subprocess.run(cmd, capture_output=True, text=True)
    if p.returncode != 0:
        raise ToolError('%s build failed (%s):\n%s' % (kind, cont, p.stderr[-3000:]))
    os.replace(exe + '.tmp', exe)
    return exe


def run_aux(exe, timeout=300):
    env = dict(os.environ)
    env['TSAN_OPTIONS'] = 'halt_on_error=0:report_signal_unsafe=0:exitcode=66'
    try:
        p = subprocess.run([exe], capture_output=True, text=True, timeout=timeout, env=env)
    except subprocess.TimeoutExpired:
        return {'rc': -1, 'out': 'timeout'}
    return {'rc': p.returncode, 'out': (p.stdout[-3000:] + '\n' + p.stderr[-6000:])}


def translation_validation(cont, n=3, seeds=(1,), steps=4000):
    """real library (g++/libstdc++) versus the encoding (clang -> ir2c -> gcc with vstd) on the same pseudo-random
    histories: results and abstract states must be byte-identical.  Returns dict(lines, identical, note)."""
    key = sha(source_hash(), 'diff', cont, n, steps)
    d = os.path.join(BUILD, 'diff', key)
    real, model = os.path.join(d, 'real_' + cont), os.path.join(d, 'model_' + cont)
    if not (os.path.exists(real) and os.path.exists(model)) or NO_CACHE:
        os.makedirs(d, exist_ok=True)
        src = os.path.join(ROOT, 'harness', 'diff_drv.cpp')
        p = subprocess.run(['g++', '-std=c++17', '-O1', '-DVF_REAL', '-DVF_RUNTIME_PROP', '-Dprivate=public', '-DCONT_API="api_%s.hpp"' % cont,
                            '-DHCAP=%d' % n, '-DTS=no', '-DDSTEPS=%d' % steps, '-I', os.path.join(ROOT, 'harness'), '-I', os.path.join(REPO, 'inc'),
                            src, '-o', real, '-lpthread'], capture_output=True, text=True)
        if p.returncode != 0:
            raise ToolError('differential (real) build failed for %s:\n%s' % (cont, p.stderr[-2000:]))
        ll, cfile = os.path.join(d, 'diff.ll'), os.path.join(d, 'diff.c')
        cmd = [CLANG] + [f for f in CLANG_FLAGS] + ['-I', os.path.join(ROOT, 'vstd'), '-I', os.path.join(REPO, 'inc'), '-I', os.path.join(ROOT, 'harness'),
               '-DCONT_HDR="c_%s.hpp"' % cont, '-DHCAP=%d' % n, '-DTS=no', '-DPROP=-1', '-DDSTEPS=%d' % steps, '-DVSTD_TAB_MAX=%d' % (n + 1),
               '-DVSTD_LIST_MAX=%d' % (n + 1), src, '-o', ll]
        p = subprocess.run(cmd, capture_output=True, text=True)
        if p.returncode != 0:
            raise ToolError('differential (model) clang failed for %s:\n%s' % (cont, p.stderr[-2000:]))
        p = subprocess.run([sys.executable, os.path.join(ROOT, 'ir2c', 'ir2c.py'), ll, '-o', cfile], capture_output=True, text=True)
        if p.returncode != 0:
            raise ToolError('differential ir2c failed for %s:\n%s' % (cont, (p.stderr or p.stdout)[-2000:]))
        p = subprocess.run(['gcc', '-O1', '-w', cfile, os.path.join(ROOT, 'hooks', 'native_hooks.c'), '-o', model], capture_output=True, text=True)
        if p.returncode != 0:
            raise ToolError('differential gcc failed for %s:\n%s' % (cont, p.stderr[-2000:]))
    total, identical, note = 0, True, ''
    for sd in seeds:
        try:
            a = subprocess.run([real, str(sd)], capture_output=True, text=True, timeout=120)
            b = subprocess.run([model, str(sd)], capture_output=True, text=True, timeout=120)
        except subprocess.TimeoutExpired:
            return {'lines': total, 'identical': False, 'note': 'differential timed out', 'fatal': False}
        la, lb = a.stdout.splitlines(), b.stdout.splitlines()
        same = 0
        for x, y in zip(la, lb):
            if x != y:
                break
            same += 1
        total += same
        if la != lb:
            identical = False
            model_msg = [l for l in lb[-3:] if l.startswith('VF_') or l.startswith('UNREACH')]
            clean = (a.returncode == 0 and b.returncode == 0 and not model_msg)
            note = 'seed %d: outputs diverge at line %d (real rc %d, model rc %d%s)' % (sd, same + 1, a.returncode, b.returncode,
                                                                                       (', model: ' + model_msg[0]) if model_msg else '')
            return {'lines': total, 'identical': False, 'note': note, 'fatal': clean}
    return {'lines': total, 'identical': identical, 'note': note, 'fatal': False}
